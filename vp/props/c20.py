from run import Family

LEVELS = [0, 1, 2, 3, 4, 5, 6, 9998, 9999, 10000]
BOUNDS = {'compile-time DEBUG': LEVELS, 'runtime level': 'symbolic unsigned int (all 2^32 values)', 'silent flag': 'symbolic',
          'macros': 'D_OPTIONS D_OBJ D_CONF D_MEM D_STRINGS D_PARSE DPRINTF1..9 ASSERT ASSERT_RVAL REQUIRE_RVAL ASSERT_NOTREACHED_RVAL libast_dprintf libast_print_warning libast_print_error'}
RULE = 'C20 shapes: (compile-time DEBUG value = one build, macro); runtime level, silent flag and the asserted condition are symbolic.'
ASSUMPTIONS = ['output = calls of fprintf/vfprintf (stubs/out_stub.c); the __DEBUG() location prefix counts as output',
               'the D_*/DPRINTFn gating is as the statement gives it (independent of the silent flag); silence is checked on libast_dprintf / print_warning / print_error',
               'verif_config.h = /repo/config.h without its DEBUG line, compiled with -DDEBUG=<k>']
DM = {0: 'D_OPTIONS', 1: 'D_OBJ', 2: 'D_CONF', 3: 'D_MEM', 4: 'D_STRINGS', 5: 'D_PARSE'}


def families(tier):
    fams = []
    for k in LEVELS:
        f = Family('debug_%d' % k, 'c20_debug.c', units=['msgs.c', 'debug.c'], stubs=['out_stub.c'], debug=k, unwind=3,
                   unwindset=['libast_dprintf:3', 'libast_print_warning:3', 'libast_print_error:3', 'libast_fatal_error:3'],
                   cap=(60, 2), note='built with -DDEBUG=%d' % k)
        P = 'C20/DEBUG=%d/' % k
        for w, nm in DM.items():
            f.add(P + nm, 'h_dmacro', w)
        for n in range(1, 10):
            f.add(P + 'DPRINTF%d' % n, 'h_dmacro', 10 + n)
        for w, nm in enumerate(('libast_dprintf', 'libast_print_warning', 'libast_print_error')):
            f.add(P + 'silent/' + nm, 'h_silent', w)
            f.add(P + 'loud/' + nm, 'h_loud', w)
        for w, nm in enumerate(('ASSERT_RVAL', 'ASSERT', 'REQUIRE_RVAL', 'ASSERT_NOTREACHED_RVAL')):
            f.add(P + nm, 'h_assert', w)
        fams.append(f)
    return fams
