from run import Family

BOUNDS = {
    'quick': {'input length': '0..4', 'alphabet': 'a b space , " \' \\ (bytes symbolic)', 'delimiters': 'default whitespace, ","', 'word index': '1..num_words (get_pword: 1..4)'},
    'thorough': {'input length': '0..5 (split), 0..5 (words)', 'alphabet': 'same', 'delimiters': 'same', 'tok': 'length 0..4'},
}
RULE = 'C12 shapes: (input length, delimiter set); join: token-length tuples; get_pword: (length, index).'
ASSUMPTIONS = ['C-locale ctype table', 'reference grammar = harness/c12_split.c:ref_split / ref_words (transcribed from the property statement)',
               'word grammar: a backslash before a quote character makes it ordinary (get_word documents this; num_words was fixed to agree)']


def families(tier):
    q = tier == 'quick'
    L = 4 if q else 5
    f = Family('split', 'c12_split.c', units=['strings.c', 'debug.c'], stubs=['msgs_stub.c', 'libc_models.c'], unwind=L + 3,
               cap=(240, 6) if q else (900, 12))
    for ln in range(0, L + 1):
        for comma in (0, 1):
            f.add('C12/split/len=%d,delim=%s' % (ln, 'comma' if comma else 'ws'), 'h_split', ln, comma)
        f.add('C12/words/len=%d' % ln, 'h_words', ln)
        for idx in range(1, 5):
            f.add('C12/pword/len=%d,idx=%d' % (ln, idx), 'h_pword', ln, idx)
    for comma in (0, 1):
        for lens in ((1, 0, 0), (2, 0, 0), (1, 1, 0), (2, 1, 0), (1, 2, 0), (1, 1, 1), (2, 1, 2)):
            f.add('C12/join/delim=%s,lens=%d-%d-%d' % (('comma' if comma else 'ws',) + lens), 'h_join', comma, *lens, unwind=12)
    return [f]
