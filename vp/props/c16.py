import os, json, sys
from run import Family, VERIF
sys.path.insert(0, os.path.join(VERIF, 'vp'))
import gen_null

BOUNDS = {'entry points': 'every exported spif_*/spiftool_* prototype of str.h ustr.h mbuff.h objpair.h tok.h url.h regexp.h socket.h obj.h libast.h whose pointer parameter the frozen contract (spec/null_contract.json) lists as guarded',
          'arguments': 'the guarded parameter NULL, every other argument a valid object built by the real constructors - once holding text and once in its empty state; and every guarded parameter NULL at once', 'runtime debug level': 'symbolic unsigned int (level 0 must return; >= 1 may end through libast_fatal_error)'}
RULE = 'C16 shapes: (function, parameter position); the runtime debug level is symbolic.'
ASSUMPTIONS = ['contract = the guards present on the pinned tree (plus this task\'s fix commits), frozen in spec/null_contract.json; the harness is regenerated from the CURRENT headers on every run',
               'static class-table slots of the container classes, stream/descriptor constructors and the socket I/O entry points are not in the contract (listed in gen_null.py SKIP)',
               '"without allocating" is decided by --memory-leak-check after the harness has deleted the objects it built']
UNITS = ['str.c', 'ustr.c', 'mbuff.c', 'objpair.c', 'tok.c', 'url.c', 'regexp.c', 'socket.c', 'obj.c', 'array.c', 'linked_list.c', 'dlinked_list.c', 'strings.c', 'debug.c']



def _sweep_stale(bdir, prefix):
    """generated units of runs that are gone (a --list call, a killed run) are removed; live runs keep theirs"""
    import re as _re
    for fn in os.listdir(bdir):
        m = _re.match(_re.escape(prefix) + r'(\d+)\.c$', fn)
        if m and not os.path.exists('/proc/' + m.group(1)):
            try:
                os.unlink(os.path.join(bdir, fn))
            except OSError:
                pass


def families(tier):
    bdir = os.path.join(VERIF, 'build')
    os.makedirs(bdir, exist_ok=True)
    _sweep_stale(bdir, 'c16_generated_')
    path = os.path.join(bdir, 'c16_generated_%d.c' % os.getpid())
    entries = gen_null.emit(path)
    f = Family('null', path, units=UNITS, stubs=['msgs_stub.c', 'libc_models.c', 'fmt_stub.c', 'pcre_stub.c', 'env_net.c', 'env_io.c', 'env_sock.c'],
               unwind=10, cap=(120, 3) if tier == 'quick' else (400, 8), flags=['--object-bits', '10'], restrict=True, leak=True,
               elem_restrict=(('spif_array_', 'spif_linked_list_', 'spif_dlinked_list_', 'spif_objpair_'), ('spif_str_', 'spif_objpair_')),
               unwindset=['spif_objpair_comp:3', 'spif_objpair_del:3', 'spif_objpair_done:3'],
               note='generated from spec/null_contract.json (%d guarded parameters with a harness)' % len(entries))
    f.cleanup = path
    for fn, func, pos, kind in entries:
        f.add('C16/%s/param=%s,%s' % (func, pos, kind), fn)
    return [f]
