from run import Family
from props.c02 import CLS, CONTAINER_ELEMS
from props.c05 import ALL_UNITS, KIND

BOUNDS = {'containers': 'list/vector/map flavour of each class, n = 0..3 owned elements (quick 0..2); every removal position',
          'other classes': 'new();del() for str, mbuff, objpair, tok, url, obj, regexp and the nine container flavours; substring, re-evaluation, setter, done()+reuse scenarios on concrete small texts; parse+dup+del of 13 URL texts (empty port, empty password, missing parts) with symbolic name-service outcomes',
          'str/mbuff operations': 'every C01/C07 step harness re-run with --memory-leak-check (each harness deletes all it created)'}
RULE = 'C06 shapes: (class, flavour, scenario, n, position); one API call per scenario from a directly built valid state, the harness acting as a correct caller.'
ASSUMPTIONS = ['"all finite programs" is covered as: every single API call is ownership-neutral from every valid state within the size bound; sequences follow by induction',
               'programs that put one object into two containers are caller errors under libast ownership rules and outside the claim',
               "CBMC --memory-leak-check: a nondeterministically chosen allocation must have been freed by the end of the harness"]


def families(tier):
    q = tier == 'quick'
    N = 2 if q else 3
    g = Family('ownership', 'c06_ownership.c', units=ALL_UNITS + ['mbuff.c'], stubs=['msgs_stub.c', 'libc_models.c', 'fmt_stub.c', 'ptr_models.c', 'pcre_stub.c', 'env_net.c'],
               unwind=10, cap=(200, 6) if q else (600, 12), flags=['--object-bits', '11'], restrict=True, leak=True,
               elem_restrict=(CONTAINER_ELEMS[0], CONTAINER_ELEMS[1] + ('spif_str_',)),
               unwindset=['spif_objpair_comp:3', 'spif_objpair_del:3', 'spif_objpair_done:3', 'spif_objpair_dup:3'])
    # by-value removal and map set with the leak check on exceed 6 GB / 200 s: run them with the element
    # counter only (it still sees every element, key and value deleted exactly once)
    h = Family('ownership_counter', 'c06_ownership.c', units=g.units, stubs=g.stubs, unwind=10, cap=g.cap, flags=g.flags, restrict=True, leak=False,
               elem_restrict=g.elem_restrict, unwindset=g.unwindset, note='element-counter oracle only (no --memory-leak-check)')
    for ci, cn in enumerate(CLS):
        for ki, kn in enumerate(KIND):
            P = 'C06/%s_%s/' % (cn, kn)
            for n in range(0, N + 1):
                g.add(P + 'del/n=%d' % n, 'h_del', ci, ki, n, 0)
                g.add(P + 'done_reuse/n=%d' % n, 'h_done_reuse', ci, ki, n)
                g.add(P + 'dup_del/n=%d' % n, 'h_dup', ci, ki, n)
                for w in range(n):
                    if ki == 0 or n <= 1 or not q:     # by-value transfer at n >= 2: 100-350 s each, thorough tier only
                        (g if ki == 0 else h).add(P + 'remove/n=%d,which=%d' % (n, w), 'h_remove', ci, ki, n, w)
                if ki < 2:
                    g.add(P + 'to_array/n=%d' % n, 'h_views', ci, ki, n, 0)
                g.add(P + 'iterator/n=%d' % n, 'h_views', ci, ki, n, 1)
                if ki == 2:
                    for w, wn in ((2, 'get_keys'), (3, 'get_values'), (4, 'get_pairs')):
                        g.add(P + '%s/n=%d' % (wn, n), 'h_views', ci, ki, n, w)
                    if n > 0:
                        h.add(P + 'set_existing/n=%d' % n, 'h_set', ci, n, 1)
                    h.add(P + 'set_new/n=%d' % n, 'h_set', ci, n, 0)
            if ki == 0:
                g.add(P + 'del_with_placeholder/n=3', 'h_del', ci, 0, 3, 1)
    for w, nm in enumerate(('str', 'mbuff', 'objpair', 'tok', 'url', 'obj', 'regexp')):
        g.add('C06/new_del/%s' % nm, 'h_new_del', w)
    for ci, cn in enumerate(CLS):
        for ki, kn in enumerate(KIND):
            g.add('C06/new_del/%s_%s' % (cn, kn), 'h_new_del', 10 + 3 * ci + ki)
    for w, nm in enumerate(('substr', 'tok_eval_twice', 'tok_set_sep_twice', 'url_setter_unparse_done', 'objpair_set_value', 'str_done_reuse')):
        g.add('C06/misc/%s' % nm, 'h_misc', w, unwind=18)
    for w in range(13):
        g.add('C06/url/parse_dup_del/text=%d' % w, 'h_url', w, unwind=18)
    fams = [g, h]
    # the C01 / C07 step harnesses under the leak check
    import props.c01 as c01, props.c07 as c07
    for mod, pid in ((c01, 'C01'), (c07, 'C07')):
        for f in mod.families(tier):
            if not f.name.startswith('step'):
                continue
            f.name = 'leak_' + f.name
            f.leak = True
            keep = []
            for o in f.obls:
                if '/substr/' in o.oid or '/subbuff/' in o.oid or '/splice' in o.oid or 'cmp/' in o.oid or '/to_num/' in o.oid or '/index/' in o.oid:
                    continue                 # queries / position sweeps: ownership is independent of idx and cnt; keep the quick run short
                o.oid = o.oid.replace(pid + '/', 'C06/leak/', 1)
                keep.append(o)
            f.obls = keep
            fams.append(f)
    return fams
