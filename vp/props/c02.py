from run import Family

CLS = ['array', 'linked_list', 'dlinked_list']
BOUNDS = {
    'quick': {'length n': '0..3', 'idx': '[-n-2, n+3] (shape)', 'elements': 'each slot a NULL placeholder or an element with symbolic value 0..3', 'classes': CLS},
    'thorough': {'length n': '0..4', 'idx': '[-n-2, n+3]', 'elements': 'same', 'classes': CLS},
}
RULE = 'C02 shapes: (class, operation, length n[, idx]); one inductive step from an arbitrary valid state.'
ASSUMPTIONS = ['Inv(array): len==n, items has n slots; Inv(linked_list): head chain of exactly n nodes; Inv(dlinked_list): additionally prev links mirror next links and tail is the last node',
               'elements are objects of a harness class (int payload, real class table with comp/dup/del), which is the only way the containers touch their elements',
               'probes passed to index/find/contains/remove are non-NULL (NULL arguments are C16)']
CONTAINER_ELEMS = (('spif_array_', 'spif_linked_list_', 'spif_dlinked_list_', 'spif_objpair_'), ('vint_', 'spif_objpair_'))
UNITS = ['array.c', 'linked_list.c', 'dlinked_list.c', 'obj.c', 'objpair.c', 'str.c', 'strings.c', 'debug.c']


def families(tier):
    q = tier == 'quick'
    N = 3 if q else 4
    f = Family('lists', 'c02_lists.c', units=UNITS, stubs=['msgs_stub.c', 'libc_models.c', 'fmt_stub.c', 'ptr_models.c'], unwind=N + 5,
               cap=(120, 3) if q else (400, 12), flags=['--object-bits', '10'], restrict=True, elem_restrict=CONTAINER_ELEMS)
    for ci, cn in enumerate(CLS):
        P = 'C02/%s/' % cn
        f.add(P + 'new', 'h_new', ci)
        for n in range(0, N + 1):
            f.add(P + 'append/n=%d' % n, 'h_push', ci, n, 0)
            f.add(P + 'prepend/n=%d' % n, 'h_push', ci, n, 1)
            for idx in range(-n - 2, n + 4):
                f.add(P + 'insert_at/n=%d,idx=%d' % (n, idx), 'h_insert_at', ci, n, idx)
            for idx in range(-n - 2, n + 3):
                f.add(P + 'remove_at/n=%d,idx=%d' % (n, idx), 'h_remove_at', ci, n, idx)
            for ph in range(0, 1 << n):
                for op, on in enumerate(('index', 'find', 'contains')):
                    f.add(P + '%s/n=%d,ph=%d' % (on, n, ph), 'h_by_value', ci, n, op, ph)
                f.add(P + 'dup/n=%d,ph=%d' % (n, ph), 'h_dup', ci, n, ph)
            for pat in range(0, 3 ** n):
                f.add(P + 'remove/n=%d,pattern=%d' % (n, pat), 'h_remove', ci, n, pat)
            f.add(P + 'reverse/n=%d' % n, 'h_reverse', ci, n)
            f.add(P + 'to_array/n=%d' % n, 'h_to_array', ci, n)
    return [f]
