import os, re
from run import Family, VERIF, REPO

NTOK = 31
CHUNK = 1000
REDUCED = [0, 3, 6, 11, 16, 17, 18, 20]    # x -a -n --aa=off --str -e --exec=p 'q r' -t
MAIN = r'for \(i = 1, opt = SPIF_CHARPTR\(argv\[1\]\); i < argc; \)'
BOUNDS = {
    'quick': {'argument words': '0..2 from a 31-token alphabet (every sequence), plus every 128th 3-word sequence and every 4th 4-word sequence over a reduced 8-token alphabet',
              'table variants': '3 (no pre-parse options / v,str,exec,theme pre-parse / a,num,cc pre-parse with long-only str,exec,theme)',
              'settings': 'pre-parse x remove-args, all four (shape)', 'symbolic per query': 'three 32-bit masks (overlapping or not), two 64-bit flag words, integer targets'},
    'thorough': {'argument words': '0..2 (every sequence, all four settings), every 8th 3-word sequence (two settings each), every 4-word sequence over the reduced 8-token alphabet', 'table variants': '3', 'symbolic per query': 'as quick'},
}
SAMPLED = {'quick': '3-word sequences (every 128th, scrambled index) and 4-word sequences over the reduced alphabet (every 4th) are samples; 0..2 words are complete', 'thorough': '3-word sequences are a sample (every 8th); 0..2 words and the 4-word reduced-alphabet sequences are complete'}
RULE = 'C08 shapes: (table variant, token sequence); the token alphabet is harness/c08_opts.c:tokens.'
ASSUMPTIONS = ['the ideal reading is harness/c08_opts.c:ref_parse (written from the property statement and the documented value-discovery rules)',
               'a lone "-" and unknown options may stay in argv or go; their bad-option count is only required to be non-zero',
               'short boolean options are switches (never take a value); an abstract option does not take a recognised option as its value',
               'bad-option limit not reached (allow_bad 200); output functions are counters', 'allocation failure out of scope']



def _sweep_stale(bdir, prefix):
    """generated units of runs that are gone (a --list call, a killed run) are removed; live runs keep theirs"""
    import re as _re
    for fn in os.listdir(bdir):
        m = _re.match(_re.escape(prefix) + r'(\d+)\.c$', fn)
        if m and not os.path.exists('/proc/' + m.group(1)):
            try:
                os.unlink(os.path.join(bdir, fn))
            except OSError:
                pass


def families(tier):
    q = tier == 'quick'
    # options.c needs two data tables that live in conf.c (true_vals / false_vals); linking all of conf.c costs 4 s of
    # program loading per query, so their definitions are copied verbatim from the CURRENT conf.c into a generated unit
    src = open(os.path.join(REPO, 'src', 'conf.c'), errors='replace').read()
    defs = re.findall(r'^const char \*(?:true|false)_vals\[\] = \{[^;]*\};', src, re.M)
    if len(defs) != 2:
        raise RuntimeError('C08: true_vals/false_vals definitions not found in src/conf.c')
    bdir = os.path.join(VERIF, 'build')
    os.makedirs(bdir, exist_ok=True)
    _sweep_stale(bdir, 'c08_boolvals_')
    gen = os.path.join(bdir, 'c08_boolvals_%d.c' % os.getpid())
    open(gen, 'w').write('/* generated from src/conf.c */\n' + '\n'.join(defs) + '\n')
    fams = []
    for tv in range(3):
        obls = []
        for ln in range(0, 4):
            total = NTOK ** ln
            step = 1 if ln < 3 else (128 if q else 8)
            for code in range(total):
                if step > 1 and ((code * 40503 + 12345 + tv) % 65521) % step != 0:
                    continue
                # settings: the four combinations of pass and argument removal (concrete, see the harness)
                for k, (st, sn) in enumerate(((0, 'normal'), (2, 'normal+remove'), (1, 'preparse'), (3, 'preparse+remove'))):
                    # quick: all four settings for 0-1 words, one of the four (rotating) beyond; thorough: all four up to
                    # 2 words, two of the four (rotating) for the sampled 3-word sequences
                    if ln < 2 or (not q and ln == 2) or (code // step + tv) % 4 == k or (not q and (code // step + tv + 2) % 4 == k):
                        obls.append(('C08/parse/tv=%d,len=%d,code=%d,pass=%s' % (tv, ln, code, sn), tv, ln, code, st))
        # four words over a reduced alphabet (one token of each kind): state carried from one word to the next
        # (e.g. a flag left over from an earlier --long=VALUE) needs a list option followed by two more words
        for c4 in range(len(REDUCED) ** 4):
            h = (c4 * 40503 + 12345) % 65521        # sampling by a scrambled index: a plain stride aligns with the digit structure
            if q and (h % 3 != tv or (h // 3) % 4 != 0):
                continue
            digs = [(c4 // len(REDUCED) ** k) % len(REDUCED) for k in range(4)]
            code = sum(REDUCED[d] * NTOK ** k for k, d in enumerate(digs))
            for k, (st, sn) in enumerate(((0, 'normal'), (2, 'normal+remove'), (1, 'preparse'), (3, 'preparse+remove'))):
                if (h // 12) % 4 == k or (not q and (h // 12 + 2) % 4 == k):
                    obls.append(('C08/parse/tv=%d,len=4,code=%d,pass=%s' % (tv, code, sn), tv, 4, code, st))
        # one goto binary holds at most CHUNK entry functions (program loading time grows with their number)
        for c in range(0, len(obls), CHUNK):
            f = Family('parse_tv%d_%d' % (tv, c // CHUNK), 'c08_opts.c', units=['options.c', 'strings.c', 'debug.c'],
                       stubs=['msgs_stub.c', 'libc_models.c', gen], unwind=17, restrict={'value': ['verif_abst']},
                       cap=(120, 3) if q else (300, 6))
            for oid, a, b, cc, st in obls[c:c + CHUNK]:
                # main loop: one pass per letter of a short bundle (at most 2 in the alphabet) or per word, +2 slack
                f.add(oid, 'h_parse', a, b, cc, st, loopspec=[('spifopt_parse', MAIN, 2 * b + 2)])
            fams.append(f)
    fams[-1].cleanup = gen
    return fams
