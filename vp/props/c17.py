from run import Family

BOUNDS = {
    'quick': {'laws: string lengths': '0..2 each, bytes symbolic over {a,b,r,c,0,1,9,.,-}', 'long runs': 'k in {127,128,129} letters/digits/punctuation', 'templates': 'digits symbolic 0..9, 1-2 digit numbers, 8 suffix words'},
    'thorough': {'laws: string lengths': '0..3 each', 'long runs': 'k in {126,127,128,129,130,200}', 'templates': 'as quick plus deeper tails'},
}
RULE = 'C17 shapes: length pair for the laws; (class, run length) for long runs; template instance for ordering facts.'
ASSUMPTIONS = ['strtol model: decimal digit loop with saturation (stubs/libc_models.c); C-locale ctype table']


MAIN = r'for \(; \*v1 && \*v2; \)'


def main(n):
    return {'loopspec': [('spiftool_version_compare', MAIN, n)]}


def families(tier):
    q = tier == 'quick'
    L = 2 if q else 3
    common = dict(units=['strings.c', 'debug.c'], stubs=['msgs_stub.c', 'libc_models.c'], cap=(300, 6) if q else (900, 12))
    f = Family('version', 'c17_version.c', unwind=L + 2, note='laws on symbolic strings; main loop bound = longer length + 1', **common)
    for la in range(0, L + 1):
        for lb in range(0, L + 1):
            f.add('C17/laws/la=%d,lb=%d' % (la, lb), 'h_laws', la, lb, **main(min(la, lb) + 1))
        f.add('C17/refl/la=%d' % la, 'h_refl', la, **main(la + 1))
        f.add('C17/null/la=%d' % la, 'h_null', la)
    t = Family('version_order', 'c17_version.c', unwind=12, note='ordering facts on generated well-formed versions', **common)
    for w1 in range(5):
        for w2 in range(5):
            t.add('C17/order/words/w1=%d,w2=%d' % (w1, w2), 'h_ord_words', w1, w2, **main(3))
    for nd1 in (1, 2):
        for nd2 in (1, 2):
            t.add('C17/order/numeric/nd1=%d,nd2=%d' % (nd1, nd2), 'h_ord_numeric', nd1, nd2, **main(4))
    for w in range(8):
        for wn in (0, 1):
            t.add('C17/order/suffix/w=%d,num=%d' % (w, wn), 'h_ord_suffix', w, wn, **main(4))
        t.add('C17/order/suffixnum/w=%d' % w, 'h_ord_suffixnum', w, **main(6))
    for d in (0, 1, 2):
        for e in (1, 2):
            t.add('C17/order/longer/d=%d,e=%d' % (d, e), 'h_ord_longer', d, e, **main(2 * d + 2))
    for nd in ((9, 10, 11) if q else (9, 10, 11, 19, 20)):
        t.add('C17/bignum/nd=%d' % nd, 'h_bignum', nd, unwind=nd + 3, **main(2))
    ks = (127, 128, 129) if q else (126, 127, 128, 129, 130, 200)
    g = Family('version_long', 'c17_version.c', unwind=max(ks) + 5, note='single runs around the 128-byte scratch buffers', flags=['--max-field-sensitivity-array-size', '300'], **common)
    for cls, cn in enumerate(('letters', 'digits', 'punct')):
        for k in ks:
            for other in (0, 1):
                g.add('C17/longrun/%s/k=%d,other=%d' % (cn, k, other), 'h_longrun', cls, k, other, **main(3))
    return [f, t, g]
