from run import Family

BOUNDS = {'stack step': 'one line of each kind (begin known / begin unknown / end / text / comment / text whose first word merely starts with end or begin) from every depth 0..254, depth symbolic within each capacity class (capacity 20, 40, 80, 160, and above 160 whatever the growth step of the code itself produces); two registered contexts; handler states symbolic',
          'files': 'every file of 0..3 lines and a 24th of the 4-line files (quick) / every file of 0..4 lines and an eighth of the 5-line files (thorough) over {comment, begin one, begin two, begin zz, end, text} after the magic line, through fopen/fgets/fclose stubs',
          'include': 'a main file of 0..2 lines with one %include at every position, included file of 0..2 lines (main+included <= 2 lines: all; 3 lines: an eighth, 4 lines: a 72nd in quick; all in thorough)',
          'outside': 'nested %include (the file-stack step is checked in C11), %preproc, backquotes'}
SAMPLED = {'quick': '4-line files (a 24th) and %include scenarios of 3..4 lines are samples; files of 0..3 lines, includes of 0..2 lines and all step classes are complete', 'thorough': '5-line files are a sample (an eighth); everything else is complete'}
RULE = 'C09 shapes: (capacity class, line kind) with symbolic depth; (number of lines, line-kind code) for whole files.'
ASSUMPTIONS = ['handlers are harness functions that log (context, BEGIN/END/text, state in) and return a fresh symbolic state',
               'value expansion of ordinary lines is the real spifconf_shell_expand (C10 owns its correctness)']
COMMON = dict(units=['strings.c', 'debug.c', 'file.c', 'str.c', 'obj.c'], stubs=['msgs_stub.c', 'libc_models.c', 'fmt_stub.c', 'env_io.c', 'env_fs.c'],
              defines=['LIBAST_VERIF_CONFIG_BUFF=64', 'LIBAST_VERIF_PATH_MAX=24'], flags=['--object-bits', '10', '--max-field-sensitivity-array-size', '300'],
              restrict={'handler': ['h1', 'h2', 'parse_null'], 'ptr': ['builtin_get', 'builtin_put', 'builtin_version', 'builtin_appname']},
              unwindset=['spifconf_shell_expand:3'])


def families(tier):
    q = tier == 'quick'
    f = Family('stack_step', 'c09_conf.c', unwind=22, cap=(120, 3) if q else (400, 8), **COMMON)
    # (capacity, lowest depth, highest depth): index < capacity, and idx+1 == capacity triggers the growth
    classes = [(20, 0, 0), (20, 1, 18), (20, 19, 19), (40, 20, 38), (40, 39, 39), (80, 40, 78), (80, 79, 79), (160, 80, 158), (160, 159, 159),
               (-160, 160, 175), (-160, 176, 191), (-160, 192, 207), (-160, 208, 223), (-160, 224, 239), (-160, 240, 253), (-160, 254, 254)]    # negative: the class the code's own growth from a full 160-entry table produces
    for cap, lo, hi in classes:
        for kind, kn in enumerate(('begin_known', 'begin_unknown', 'end', 'text', 'comment', 'text_endian', 'text_beginner')):
            if kind >= 5 and not (hi < 20 or lo == hi):
                continue        # keyword look-alikes: the small classes and the growth points
            f.add('C09/step/%s/cap=%d,depth=%d..%d' % (kn, cap, lo, hi), 'h_step', cap, lo, hi, kind)
    g = Family('files', 'c09_conf.c', unwind=22, cap=(200, 4) if q else (600, 8), **COMMON)
    for n in range(0, 5 if q else 6):
        for code in range(6 ** n):
            if (q and n == 4 and (code * 40503 + 7) % 65521 % 24 != 0) or (not q and n == 5 and (code * 40503 + 7) % 65521 % 8 != 0):
                continue            # quick: every file of up to 3 lines and a 24th of the 4-line files; thorough: all of 4, an eighth of 5
            g.add('C09/file/lines=%d,code=%d' % (n, code), 'h_file', n, code)
    h = Family('include', 'c09_conf.c', unwind=22, cap=(200, 4) if q else (600, 8), **COMMON)
    for nmain in range(0, 3):
        for mcode in range(6 ** nmain):
            for pos in range(0, nmain + 1):
                for ninc in range(0, 3):
                    for icode in range(6 ** ninc):
                        idx = ((mcode * 7 + pos) * 37 + icode) * 3 + ninc
                        if nmain + ninc <= 2 or (nmain + ninc == 3 and (not q or idx % 8 == 0)) or (nmain + ninc == 4 and (not q or idx % 72 == 0)):
                            h.add('C09/include/main=%d:%d,at=%d,inc=%d:%d' % (nmain, mcode, pos, ninc, icode), 'h_include', nmain, mcode, pos, ninc, icode)
    return [f, g, h]
