from run import Family

BOUNDS = {
    'quick': {'buffer length': '0..3 (+ up to 2 appended/inserted)', 'capacity slack': '{0, 2} and the empty state (NULL,0,0)', 'idx,cnt': '[-len-1, len+1] (shape)', 'bytes': 'symbolic, all 256 values'},
    'thorough': {'buffer length': '0..4 (+ up to 3)', 'capacity slack': '{0, 1, 3} and the empty state', 'idx,cnt': '[-len-2, len+2]', 'bytes': 'symbolic'},
}
RULE = 'C07 shapes: (operation, length, capacity slack[, argument length, idx, cnt]); one inductive step from an arbitrary valid state.'
ASSUMPTIONS = ['invariant Inv(mbuff): (buff==NULL,len==0,size==0) or (buff!=NULL, 0<=len<=size<=allocation)', 'fread() only returns a short count at end of input (its contract); read() on a non-seekable descriptor may return short counts at any time',
               'cmp_with_ptr/ncmp_with_ptr compare exactly the caller-supplied count: value checked for counts <= length, memory safety beyond (the suite itself relies on a count of length+1)',
               'negative splice counts follow the rule the code documents (idx+len+cnt)']
UNARY = ['trim', 'reverse', 'clear', 'done', 'done_reinit']


def states(maxlen, slacks):
    out = [(0, -1)]
    for ln in range(0, maxlen + 1):
        for sl in slacks:
            out.append((ln, sl))
    return out


def st(s):
    return 'len=%d,slack=%s' % (s[0], 'E' if s[1] < 0 else s[1])


def families(tier):
    q = tier == 'quick'
    L = 3 if q else 4
    slacks = (0, 2) if q else (0, 1, 3)
    others = [(0, -1), (0, 2), (1, 0), (1, 1), (2, 0)] + ([] if q else [(3, 0), (2, 2)])
    units = ['mbuff.c', 'obj.c', 'str.c', 'strings.c', 'debug.c']
    cap = (120, 3) if q else (400, 12)
    f = Family('step', 'c07_mbuff.c', units=units, stubs=['msgs_stub.c', 'libc_models.c'], unwind=L + 6, cap=cap)
    P = 'C07/mbuff/'
    for s in states(L, slacks):
        for o in others:
            tag = '%s,o=%d%s' % (st(s), o[0], 'E' if o[1] < 0 else '+%d' % o[1])
            f.add(P + 'append/' + tag, 'h_cat', 0, s[0], s[1], o[0], o[1])
            f.add(P + 'prepend/' + tag, 'h_cat', 1, s[0], s[1], o[0], o[1])
        for ol in range(0, 3 if q else 4):
            f.add(P + 'append_from_ptr/%s,olen=%d' % (st(s), ol), 'h_cat_ptr', 0, s[0], s[1], ol)
            f.add(P + 'prepend_from_ptr/%s,olen=%d' % (st(s), ol), 'h_cat_ptr', 1, s[0], s[1], ol)
            f.add(P + 'find/%s,olen=%d' % (st(s), ol), 'h_find', s[0], s[1], ol)
            f.add(P + 'cmp/%s,olen=%d' % (st(s), ol), 'h_cmp', s[0], s[1], ol)
        for op, name in enumerate(UNARY):
            f.add(P + '%s/%s' % (name, st(s)), 'h_unary', op, s[0], s[1])
        f.add(P + 'index/%s' % st(s), 'h_index', s[0], s[1])
        f.add(P + 'dup/%s' % st(s), 'h_dup', s[0], s[1])
    LS = 2 if q else 3
    ext = 1 if q else 2
    for s in states(LS, (0,) if q else (0, 2)):
        ln = s[0]
        for idx in range(-ln - ext, ln + ext + 1):
            for cnt in range(-ln - ext, ln + ext + 1):
                f.add(P + 'subbuff/%s,idx=%d,cnt=%d' % (st(s), idx, cnt), 'h_sub', s[0], s[1], idx, cnt)
                for ol, onull in ((0, 1), (0, 0), (2, 0)):
                    o = 'NULL' if onull else ol
                    f.add(P + 'splice/%s,idx=%d,cnt=%d,o=%s' % (st(s), idx, cnt, o), 'h_splice', s[0], s[1], idx, cnt, ol, onull)
                    f.add(P + 'splice_from_ptr/%s,idx=%d,cnt=%d,o=%s' % (st(s), idx, cnt, o), 'h_splice_ptr', s[0], s[1], idx, cnt, ol, onull)
    f.add(P + 'new', 'h_new')
    for ln in range(0, L + 1):
        f.add(P + 'new_from_ptr/len=%d' % ln, 'h_new_ptr', ln)
        for size in (0, ln, ln + 2):
            f.add(P + 'new_from_buff/len=%d,size=%d' % (ln, size), 'h_new_buff', ln, size, 0)
    for size in (0, 3):
        f.add(P + 'new_from_buff/NULL,len=2,size=%d' % size, 'h_new_buff', 2, size, 1)
    g = Family('stream', 'c07_mbuff.c', units=units, stubs=['msgs_stub.c', 'libc_models.c', 'env_io.c'],
               defines=['VERIF_STREAMS', 'LIBAST_VERIF_BUFF_INC=4'], unwind=18, cap=cap,
               note='BUFF_INC scaled to 4 (hook); seekable and non-seekable inputs; short transfers')
    plens = (0, 1, 3, 4, 5, 8, 9) if q else tuple(range(0, 14))
    for pl in plens:
        for seekable in (0, 1):
            g.add(P + 'new_from_fp/plen=%d,seekable=%d' % (pl, seekable), 'h_from_file', 0, pl, seekable, 0, 0)
        g.add(P + 'new_from_fd/plen=%d,seekable=1' % pl, 'h_from_file', 1, pl, 1, 0, 0)
        for k1 in (0, 1, 3):
            for k2 in ((0, 2) if q else (0, 1, 2, 3)):
                g.add(P + 'new_from_fd/plen=%d,seekable=0,sched=%d.%d' % (pl, k1, k2), 'h_from_file', 1, pl, 0, k1, k2)
    h = Family('format', 'c07_mbuff.c', units=units, stubs=['msgs_stub.c', 'libc_models.c', 'fmt_stub.c'],
               defines=['VERIF_FORMAT'], unwind=16, cap=cap, note='vsnprintf replaced by an exact mini-printf')
    for s in states(2, (0, 2)):
        h.add(P + 'sprintf/%s,fmt=empty' % st(s), 'h_sprintf', s[0], s[1], 0, 0)
        for al in (1, 3):
            h.add(P + 'sprintf/%s,fmt=%%s,arg=%d' % (st(s), al), 'h_sprintf', s[0], s[1], 1, al)
    return [f, g, h]
