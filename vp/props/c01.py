from run import Family

BOUNDS = {
    'quick': {'text length': '0..3 (+ up to 2 appended/inserted)', 'capacity slack': '{0, 2} and the empty state (NULL,0,0)', 'idx,cnt': '[-len-1, len+1] each (shape)', 'characters': 'symbolic, all 255 non-NUL bytes', 'classes': 'str, ustr'},
    'thorough': {'text length': '0..4 (+ up to 3)', 'capacity slack': '{0, 1, 3} and the empty state', 'idx,cnt': '[-len-2, len+2]', 'characters': 'symbolic', 'classes': 'str, ustr'},
}
RULE = 'C01 shapes: (class, operation, text length, capacity slack[, argument length, idx, cnt]); one inductive step from an arbitrary state satisfying the invariant.'
ASSUMPTIONS = ['invariant Inv(str): (s==NULL,len==0,size==0) or (s!=NULL, 0<=len<size<=allocation, s[len]==0, no NUL below len)',
               'histories are covered as base (constructors establish Inv) + step (each operation preserves Inv and matches the ideal sequence) for texts within the length bound',
               'clear(c) is checked for non-NUL c; negative splice counts follow the rule the code documents (idx+len+cnt)',
               'to_float: strtod is trusted (only to_num is checked, against a decimal strtoul model)']
UNARY = ['trim', 'reverse', 'upcase', 'downcase', 'clear', 'done', 'done_reinit']


def states(maxlen, slacks):
    out = [(0, -1)]
    for ln in range(0, maxlen + 1):
        for sl in slacks:
            out.append((ln, sl))
    return out


def st(s):
    return 'len=%d,slack=%s' % (s[0], 'E' if s[1] < 0 else s[1])


def families(tier):
    q = tier == 'quick'
    L = 3 if q else 4
    slacks = (0, 2) if q else (0, 1, 3)
    others = [(0, -1), (0, 0), (1, 0), (1, 1), (2, 0)] + ([] if q else [(3, 0), (2, 2)])
    fams = []
    for cls in ('str', 'ustr'):
        f = Family('step_' + cls, 'c01_str.c', units=[cls + '.c', 'obj.c', 'strings.c', 'debug.c'] + (['str.c'] if cls == 'ustr' else []),
                   stubs=['msgs_stub.c', 'libc_models.c'], defines=(['USTR'] if cls == 'ustr' else []), unwind=L + 6,
                   cap=(120, 3) if q else (400, 12))
        P = 'C01/%s/' % cls
        for s in states(L, slacks):
            for o in others:
                f.add(P + 'append/%s,o=%d%s' % (st(s), o[0], 'E' if o[1] < 0 else '+%d' % o[1]), 'h_append', s[0], s[1], o[0], o[1])
                f.add(P + 'prepend/%s,o=%d%s' % (st(s), o[0], 'E' if o[1] < 0 else '+%d' % o[1]), 'h_prepend', s[0], s[1], o[0], o[1])
            for ol in range(0, 3 if q else 4):
                f.add(P + 'append_from_ptr/%s,olen=%d' % (st(s), ol), 'h_append_ptr', s[0], s[1], ol)
                f.add(P + 'prepend_from_ptr/%s,olen=%d' % (st(s), ol), 'h_prepend_ptr', s[0], s[1], ol)
                f.add(P + 'find/%s,olen=%d' % (st(s), ol), 'h_find', s[0], s[1], ol)
                f.add(P + 'cmp/%s,olen=%d' % (st(s), ol), 'h_cmp', s[0], s[1], ol)
            f.add(P + 'append_char/%s' % st(s), 'h_append_char', s[0], s[1])
            f.add(P + 'prepend_char/%s' % st(s), 'h_prepend_char', s[0], s[1])
            for op, name in enumerate(UNARY):
                f.add(P + '%s/%s' % (name, st(s)), 'h_unary', op, s[0], s[1])
            f.add(P + 'index/%s' % st(s), 'h_index', s[0], s[1])
            f.add(P + 'to_num/%s' % st(s), 'h_to_num', s[0], s[1])
            f.add(P + 'dup/%s' % st(s), 'h_dup', s[0], s[1])
        # idx/cnt feeding sizes: shape
        LS = 2 if q else 3
        ext = 1 if q else 2
        for s in states(LS, (0,) if q else (0, 2)):
            ln = s[0]
            for idx in range(-ln - ext, ln + ext + 1):
                for cnt in range(-ln - ext, ln + ext + 1):
                    f.add(P + 'substr/%s,idx=%d,cnt=%d' % (st(s), idx, cnt), 'h_substr', s[0], s[1], idx, cnt)
                    for ol, onull in ((0, 1), (0, 0), (2, 0)):
                        f.add(P + 'splice/%s,idx=%d,cnt=%d,o=%s' % (st(s), idx, cnt, 'NULL' if onull else ol), 'h_splice', s[0], s[1], idx, cnt, ol, onull)
                        f.add(P + 'splice_from_ptr/%s,idx=%d,cnt=%d,o=%s' % (st(s), idx, cnt, 'NULL' if onull else ol), 'h_splice_ptr', s[0], s[1], idx, cnt, ol, onull)
        f.add(P + 'new', 'h_new')
        for ln in range(0, L + 1):
            f.add(P + 'new_from_ptr/len=%d' % ln, 'h_new_ptr', ln)
        for blen in range(0, 4):
            for tlen in range(0, blen + 1):
                for size in range(0, blen + 1):
                    f.add(P + 'new_from_buff/blen=%d,tlen=%d,size=%d' % (blen, tlen, size), 'h_new_buff', blen, tlen, size)
        for size in (0, 1, 3):
            f.add(P + 'new_from_buff/NULL,size=%d' % size, 'h_new_buff_null', size)
        fams.append(f)
        # stream/descriptor constructors with the read chunk scaled to 4 bytes
        g = Family('stream_' + cls, 'c01_str.c', units=f.units, stubs=['msgs_stub.c', 'libc_models.c', 'env_io.c'],
                   defines=f.defines + ['VERIF_STREAMS', 'LIBAST_VERIF_BUFF_INC=4'], unwind=18,
                   cap=(120, 3) if q else (400, 12), note='BUFF_INC scaled to 4 (hook); payload crosses up to three chunk boundaries')
        kinds = (0, 1, 3, -1)
        plens = (0, 1, 3, 4, 5, 8, 9) if q else tuple(range(0, 13))       # the ideal-model text holds 12 characters
        for pl in plens:
            for k1 in kinds:
                for k2 in ((0, -1) if q else kinds):
                    for k3 in ((0,) if q else (0, -1)):
                        for stale in (0, 1):
                            g.add(P + 'new_from_fd/plen=%d,sched=%d.%d.%d,stale_errno=%d' % (pl, k1, k2, k3, stale), 'h_from_fd', pl, k1, k2, k3, stale)
            for nl in [-1] + list(range(0, pl)):
                g.add(P + 'new_from_fp/plen=%d,nl=%d' % (pl, nl), 'h_from_fp', pl, nl)
        fams.append(g)
        h = Family('format_' + cls, 'c01_str.c', units=f.units, stubs=['msgs_stub.c', 'libc_models.c', 'fmt_stub.c'],
                   defines=f.defines + ['VERIF_FORMAT'], unwind=26, cap=(120, 3) if q else (400, 12),
                   note='snprintf/vsnprintf replaced by an exact mini-printf (stubs/fmt_stub.c)')
        for d in (1, 2, 3, 5):
            h.add(P + 'new_from_num/digits<=%d' % d, 'h_from_num', d)
        for s_ in states(2, (0, 2)):
            h.add(P + 'sprintf/%s,fmt=empty' % st(s_), 'h_sprintf', s_[0], s_[1], 0, 0)
            h.add(P + 'sprintf/%s,fmt=a%%db' % st(s_), 'h_sprintf', s_[0], s_[1], 2, 0)
            for al in (1, 2, 3):
                h.add(P + 'sprintf/%s,fmt=%%s,arg=%d' % (st(s_), al), 'h_sprintf', s_[0], s_[1], 1, al)
        fams.append(h)
    return fams
