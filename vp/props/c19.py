from run import Family

BOUNDS = {
    'quick': {'receive': 'payload 1..9 non-NUL symbolic bytes, read chunk scaled to 4, first three read calls each complete / short 1 / short 3 / EINTR, stale errno', 'send': 'payload 1..4 symbolic bytes, first three write calls each complete / short 1 / EINTR / EAGAIN',
              'descriptors': 'open (listener, client; every outcome of socket/bind/listen/connect/fcntl), accept (ok/fail) with both deletion orders, close (ok / EINTR / EIO), dup, done, del, hard write error'},
    'thorough': {'receive': 'payload 1..17', 'send': 'payload 1..6, four-kind schedules for three calls', 'descriptors': 'same'},
}
RULE = 'C19 shapes: (payload length, per-call transfer schedule) for data; (scenario) for descriptors; payload bytes and every stub outcome symbolic.'
ASSUMPTIONS = ['kernel = stubs: read/write per schedule (stubs/env_io.c); socket/bind/listen/connect/accept/dup/close/fcntl/select nondeterministic within their contracts (stubs/env_sock.c)',
               'close() failing with EINTR leaves the descriptor open (it is retried); failing with EIO releases it (Linux semantics)',
               'UNIX-domain URLs only ("unix:/p"); name resolution for INET is outside the claim',
               'read chunk scaled to 4 bytes through the LIBAST_VERIF_BUFF_INC hook']
UNITS = ['socket.c', 'url.c', 'str.c', 'obj.c', 'strings.c', 'debug.c']


def families(tier):
    q = tier == 'quick'
    cap = (200, 4) if q else (600, 12)
    f = Family('data', 'c19_socket.c', units=UNITS, stubs=['msgs_stub.c', 'libc_models.c', 'fmt_stub.c', 'env_io.c', 'env_sock.c', 'env_net.c'],
               defines=['LIBAST_VERIF_BUFF_INC=4'], unwind=22, cap=cap, unwindset=['spif_socket_send:4'])
    rk = (0, 1, 3, -1)
    for pl in ((1, 3, 4, 5, 8, 9) if q else range(1, 18)):
        for k1 in rk:
            for k2 in ((0, -1) if q else rk):
                for k3 in ((0,) if q else (0, -1)):
                    for stale in (0, 1):
                        f.add('C19/recv/plen=%d,sched=%d.%d.%d,stale_errno=%d' % (pl, k1, k2, k3, stale), 'h_recv', pl, k1, k2, k3, stale)
    wk = (0, 1, -1, -2)
    for pl in ((1, 2, 4) if q else range(1, 7)):
        for k1 in wk:
            for k2 in wk:
                for k3 in ((0, 1) if q else wk):
                    f.add('C19/send/plen=%d,sched=%d.%d.%d' % (pl, k1, k2, k3), 'h_send', pl, k1, k2, k3)
    g = Family('descriptors', 'c19_socket.c', units=UNITS, stubs=f.stubs, defines=f.defines, unwind=14, cap=cap, unwindset=['spif_socket_send:4'])
    for role, rn in enumerate(('listener', 'client')):
        for twice in (0, 1):
            g.add('C19/fd/open/%s,twice=%d' % (rn, twice), 'h_open', role, twice)
    for order in (0, 1):
        g.add('C19/fd/accept/del_order=%d' % order, 'h_accept', order)
    for op, on in enumerate(('close', 'dup', 'done', 'close_twice')):
        g.add('C19/fd/%s' % on, 'h_lifecycle', op)
    g.add('C19/fd/send_hard_error/EIO', 'h_send_error', -3)
    g.add('C19/fd/send_hard_error/ENOBUFS', 'h_send_error', -4)
    return [f, g]
