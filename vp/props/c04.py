from run import Family
from props.c02 import CLS, UNITS, CONTAINER_ELEMS

BOUNDS = {
    'quick': {'length n': '0..3', 'values': 'find/contains and the two linked classes: symbolic non-decreasing 0..3 with a symbolic probe -1..4; array insert/remove: all sorted multisets over {1,3,5} x probes 0..6 (shape)'},
    'thorough': {'length n': '0..4', 'values': 'same'},
}
RULE = 'C04 shapes: (class, operation, length[, value pattern, probe]).'
ASSUMPTIONS = ['Inv(vector) = list invariant + no NULL element + non-decreasing under comp',
               'order among equal elements is not part of the claim (multiset): identity of each stored object is checked, not its rank among duplicates']


def families(tier):
    q = tier == 'quick'
    N = 3 if q else 4
    f = Family('vectors', 'c04_vectors.c', units=UNITS, stubs=['msgs_stub.c', 'libc_models.c', 'fmt_stub.c', 'ptr_models.c'], unwind=N + 6,
               cap=(120, 3) if q else (400, 12), flags=['--object-bits', '10'], restrict=True, elem_restrict=CONTAINER_ELEMS)
    for ci, cn in enumerate(CLS):
        P = 'C04/%s/' % cn
        for n in range(0, N + 1):
            f.add(P + 'find/n=%d' % n, 'h_find', ci, n)
            if cn == 'array':
                codes = set()
                for code in range(3 ** n):
                    # canonical codes only (distinct value tuples)
                    vals, v, c = [], 1, code
                    for i in range(n):
                        v = min(5, v + 2 * (c % 3)); c //= 3; vals.append(v)
                    codes.add(tuple(vals))
                seen = set()
                for code in range(3 ** n):
                    vals, v, c = [], 1, code
                    for i in range(n):
                        v = min(5, v + 2 * (c % 3)); c //= 3; vals.append(v)
                    if tuple(vals) in seen:
                        continue
                    seen.add(tuple(vals))
                    for x in range(0, 7):
                        tag = 'n=%d,vals=%s,x=%d' % (n, '.'.join(map(str, vals)) or '-', x)
                        f.add(P + 'insert/' + tag, 'h_insert', ci, n, code, x)
                        f.add(P + 'remove/' + tag, 'h_remove', ci, n, code, x)
            else:
                f.add(P + 'insert/n=%d,symbolic' % n, 'h_insert', ci, n, -1, 0)
                f.add(P + 'remove/n=%d,symbolic' % n, 'h_remove', ci, n, -1, 0)
    return [f]
