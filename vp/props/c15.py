from run import Family

BOUNDS = {'records n': '0..3', 'runtime level': 'symbolic unsigned int (below and at/above DEBUG_MEM decided by the solver)',
          'file-name length': '{0, 19, 20, 21, 25}', 'realloc/free target': 'NULL, each tracked block, an untracked live block', 'sizes': '{0, 5} for realloc'}
RULE = 'C15 shapes: (operation, table size n, target block, size, file-name length); record contents symbolic.'
ASSUMPTIONS = ['Inv: malloc_rec.cnt == n, ptrs holds n records with distinct non-NULL addresses of live blocks',
               'table is compared as a set keyed by address (record order is not part of the claim)',
               'built with -DDEBUG=5 through the derived config.h; allocation failure out of scope']


def families(tier):
    f = Family('tracker', 'c15_mem.c', units=['strings.c', 'debug.c'], stubs=['msgs_stub.c', 'libc_models.c', 'out_stub.c', 'ptr_models.c', 'c15_lo.c'],
               debug=5, unwind=28, cap=(120, 3), note='harness includes src/mem.c; one inductive step per tracked operation')
    for n in range(0, 4):
        for fl in (0, 19, 20, 21, 25):
            for op, on in enumerate(('malloc', 'calloc', 'strdup')):
                if fl in (0, 20, 25) or op == 0:
                    for act in (0, 1):
                        f.add('C15/step/%s/n=%d,flen=%d,tracking=%d' % (on, n, fl, act), 'h_alloc', n, op, fl, act)
        for which in range(-1, n + 1):
            for size in (0, 5):
                for act in (0, 1):
                    f.add('C15/step/realloc/n=%d,which=%d,size=%d,tracking=%d' % (n, which, size, act), 'h_realloc', n, which, size, 21, act)
            for act in (0, 1):
                f.add('C15/step/free/n=%d,which=%d,tracking=%d' % (n, which, act), 'h_free', n, which, act)
    for memnull in (0, 1):
        for size in (0, 1, 2, 5):
            for lvl in (0, 4):
                f.add('C15/macros/memnull=%d,size=%d,level=%d' % (memnull, size, lvl), 'h_macros', memnull, size, lvl)
    g = Family('balance', 'c15_balance.c', units=['str.c', 'mbuff.c', 'obj.c', 'objpair.c', 'array.c', 'linked_list.c', 'dlinked_list.c', 'strings.c', 'debug.c'],
               stubs=['msgs_stub.c', 'libc_models.c', 'out_stub.c', 'fmt_stub.c'], debug=5, unwind=12, cap=(200, 6), flags=['--object-bits', '10'],
               loopspec=[('spiftool_safe_strncpy', r'for \(; \(c = \*s\)', 24)],
               restrict=True, elem_restrict=(('spif_array_', 'spif_linked_list_', 'spif_dlinked_list_', 'spif_objpair_'), ('spif_str_', 'spif_objpair_')),
               note='whole library units built with -DDEBUG=5, runtime level 5: table empty after every object is deleted')
    for ln in (0, 2):
        g.add('C15/balance/str/len=%d' % ln, 'h_str', ln)
        g.add('C15/balance/mbuff/len=%d' % ln, 'h_mbuff', ln)
    # (objpair and the three list classes: 6-8 tracked blocks; after the table's REALLOC CBMC hands record pointers back as
    #  byte extracts, record indices turn symbolic and the query exceeds 6 GB - thorough tier only, reported as inconclusive if so)
    if tier != 'quick':
        g.add('C15/balance/objpair', 'h_pair')
        for ci, cn in enumerate(('array', 'linked_list', 'dlinked_list')):
            g.add('C15/balance/%s' % cn, 'h_list', ci)
    return [f, g]
