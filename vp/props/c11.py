from run import Family
from props.c09 import COMMON

BOUNDS = {'table growth': 'context-state stack, file-state stack, context table and builtin table: one registration from every (index, capacity) pair: capacities base..160 by doubling and, above 160, whatever the growth step itself produces; index symbolic 0..254',
          'lines': '23 adversarial concrete lines (empty, bare newline, lone %, %include without a name, control characters, partial keywords) at depth 0 and 1 with the spawn oracle on',
          'find_file': 'PATH_MAX scaled to 24 (hook); file length 0..26, dir length 0..13, one or two search-path elements of length 0..25',
          'temp_file': 'template length 0..250, caller length 1..300', 'lifecycle': 'two init/register/put/free cycles; re-initialisation from arbitrary leftover indices and capacities (symbolic)'}
RULE = 'C11 shapes: (table, capacity class) with symbolic index; (line, depth); (file, dir, path lengths); (template length, buffer length).'
ASSUMPTIONS = ['process creation = system()/popen()/fork() stubs that assert the input asked for it', 'mkstemp() uniqueness is its own contract (trusted); the umask in force, the template and the fchmod mode are checked',
               'path and file-name bytes are concrete (lengths are the subject: the copies are strlen()-sized)', 'whole-file byte-level fuzz of spifconf_parse is outside: lines reaching the expander are C10\'s texts']


def families(tier):
    q = tier == 'quick'
    f = Family('tables', 'c09_conf.c', unwind=30, cap=(120, 3) if q else (400, 8), **COMMON)
    for which, wn in enumerate(('ctx_state', 'fstate', 'context', 'builtins')):
        base = 10 if which in (1, 3) else 20
        cap, lo = base, 0
        while cap <= 160:
            f.add('C11/grow/%s/cap=%d,idx=%d..%d' % (wn, cap, lo, cap - 2), 'h_grow', which, cap, lo, cap - 2)
            f.add('C11/grow/%s/cap=%d,idx=%d' % (wn, cap, cap - 1), 'h_grow', which, cap, cap - 1, cap - 1)
            lo, cap = cap, cap * 2
        # above 160: the class the growth step of the code itself produces from a full 160-entry table
        for a, b in ((160, 206), (207, 253), (254, 254)):
            f.add('C11/grow/%s/cap=grown-from-160,idx=%d..%d' % (wn, a, b), 'h_grow', which, -160, a, b)
    for w in range(23):
        for depth in (0, 1):
            f.add('C11/line/%d,depth=%d' % (w, depth), 'h_line', w, depth)
    f.add('C11/lifecycle', 'h_lifecycle')
    f.add('C11/reinit-from-any-leftover-state', 'h_reinit')
    for fl in (0, 1, 10, 21, 22, 23, 24, 26):
        for dl in (0, 1, 12, 13):
            for p1 in (0, 1, 11, 23, 25):
                f.add('C11/find_file/file=%d,dir=%d,path=%d' % (fl, dl, p1), 'h_find_file', fl, dl, p1, -1, unwind=30)
            f.add('C11/find_file/file=%d,dir=%d,path=2:3' % (fl, dl), 'h_find_file', fl, dl, 2, 3, unwind=30)
    g = Family('tempfile', 'c09_conf.c', unwind=310, cap=(200, 4) if q else (400, 8), **COMMON)
    for tl in (0, 1, 100, 240, 250):
        for ln in (1, 10, 256, 300):
            g.add('C11/temp_file/tlen=%d,len=%d' % (tl, ln), 'h_temp_file', tl, ln)
    return [f, g]
