from run import Family

BOUNDS = {
    'quick': {'size': '1..5', 'source_length': '0..6', 'text_length': '0..3', 'substr idx,cnt': '-5..5 each (shape)', 'bytes': 'symbolic, all 255 non-NUL values (256 for safe_str / strncat destination)'},
    'thorough': {'size': '1..7', 'source_length': '0..8', 'text_length': '0..5', 'substr idx,cnt': '-7..7 each (shape)', 'bytes': 'symbolic'},
}
RULE = 'C13 shapes: (size, source length) for strncpy/strncat; (length, idx, cnt) for substr; (helper, length) for in-place helpers.'
ASSUMPTIONS = ['C locale ctype table (stubs/ctype_table.inc generated from the running glibc)',
               'condense_whitespace reference: every whitespace run becomes one blank, one trailing blank removed (a leading blank is kept, as the code documents)']
OPS = ['chomp', 'condense_whitespace', 'downcase', 'upcase', 'strrev']


def families(tier):
    q = tier == 'quick'
    maxsize, maxsrc, maxlen, ir = (5, 6, 3, 5) if q else (7, 8, 5, 7)
    f = Family('helpers', 'c13_helpers.c', units=['strings.c', 'debug.c'], stubs=['msgs_stub.c', 'libc_models.c'], unwind=12)
    for size in range(1, maxsize + 1):
        for sl in range(0, maxsrc + 1):
            f.add('C13/strncpy/size=%d,slen=%d' % (size, sl), 'h_strncpy', size, sl)
            f.add('C13/strncat/size=%d,slen=%d' % (size, sl), 'h_strncat', size, sl)
    for ln in range(0, maxlen + 1):
        for idx in range(-min(ir, ln + 2), min(ir, ln + 2) + 1):
            for cnt in range(-min(ir, ln + 2), min(ir, ln + 2) + 1):
                f.add('C13/substr/len=%d,idx=%d,cnt=%d' % (ln, idx, cnt), 'h_substr', ln, idx, cnt)
    for op, name in enumerate(OPS):
        for ln in range(0, maxlen + 2):
            f.add('C13/inplace/%s/len=%d' % (name, ln), 'h_inplace', op, ln)
    for ln in range(0, maxlen + 2):
        f.add('C13/safe_str/len=%d' % ln, 'h_safe_str', ln)
    return [f]
