from run import Family

NAMES = ['jenkins', 'jenkinsLE', 'jenkins32', 'rotating', 'one_at_a_time', 'fnv']
BOUNDS = {
    'quick': {'key_length_bytes': '0..13 (jenkins32: 0..4 words)', 'placement_offset': '0..3 (jenkins32: 0)', 'seed': 'symbolic 32-bit, plus seed==0 separately', 'unwind': 16},
    'thorough': {'key_length_bytes': '0..25 (jenkins32: 0..7 words)', 'placement_offset': '0..3', 'seed': 'symbolic 32-bit, plus seed==0 separately', 'unwind': 28},
}
RULE = 'C18 shapes: (hash function, key length, placement offset, seed-is-zero?); key bytes and seed symbolic.'
ASSUMPTIONS = ['little-endian host (the build under test)', 'reference definitions in harness/c18_hashes.c are the published lookup2 / rotating / one-at-a-time / FNV-1a-with-multiply definitions with libast\'s documented initial value 0xf721b64d']


def families(tier):
    maxn = 13 if tier == 'quick' else 25
    maxw = 4 if tier == 'quick' else 7
    f = Family('hashes', 'c18_hashes.c', units=['builtin_hashes.c'], stubs=[], unwind=max(maxn, 4 * maxw) + 3,
               backend='kissat', fallback=('cadical',), note='impl vs reference, key in exact-size heap object')
    for fn, name in enumerate(NAMES):
        top = maxw if name == 'jenkins32' else maxn
        for n in range(0, top + 1):
            offs = [0] if name == 'jenkins32' else [0, 1, 2, 3]
            for off in offs:
                f.add('C18/value/%s/n=%d,off=%d,seed=sym' % (name, n, off), 'h_hash', fn, n, off, 0)
            f.add('C18/value/%s/n=%d,off=0,seed=0' % (name, n), 'h_hash', fn, n, 0, 1)
    f.add('C18/mix/round', 'h_mix')
    return [f]
