from run import Family

BOUNDS = {
    'quick': {'round trip': 'every valid presence pattern of the 7 components x 2 length variants, component text concrete from its own delimiter-free alphabet (password containing ":", path containing "@" and ":", query containing "?")', 'robustness': 'all strings of length 0..3 as sequences of byte classes {: / ? @ alnum other} (shape), one representative byte per class; lookup outcomes and port symbolic', 'lookups': 'each getprotobyname/getservbyname call independently NULL or a result with symbolic port'},
    'thorough': {'round trip': 'same', 'robustness': 'length 0..4, same classes', 'lookups': 'same'},
}
RULE = 'C14 shapes: (presence mask, component length) for the round trip; text length for robustness.'
ASSUMPTIONS = ['component alphabets exclude their own delimiters (password may contain ":"; path may contain "@" and ":"; query may contain "?" but not "/")',
               'canonical text = proto: // user[:passwd]@ host[:port] /path ?query with // exactly when a host is present',
               'name-service contents are arbitrary (stubs/env_net.c); real /etc/services is outside the claim']


def valid(m):
    P, U, W, H, O, A, Q = 1, 2, 4, 8, 16, 32, 64
    if (m & W) and not (m & U):
        return False
    if (m & O) and not (m & H):
        return False
    if (m & U) and not (m & H):
        return False            # user@ without a host: not in the accepted shape
    if m == 0:
        return False
    if (m & Q) and not (m & (H | A)):
        return False
    if not (m & (H | A)):
        return False            # a bare "proto:" is not a URL
    return True


def families(tier):
    q = tier == 'quick'
    f = Family('url', 'c14_url.c', units=['url.c', 'str.c', 'obj.c', 'strings.c', 'debug.c'],
               stubs=['msgs_stub.c', 'libc_models.c', 'fmt_stub.c', 'env_net.c'], unwind=26, cap=(300, 6) if q else (900, 12), flags=['--object-bits', '12'],
               backend='cadical', fallback=('kissat',))
    for m in range(1, 128):
        if valid(m):
            for l2 in (0, 1):
                f.add('C14/roundtrip/mask=%d,extra=%d' % (m, l2), 'h_roundtrip', m, l2)
    for ln in range(0, 4 if q else 5):
        for code in range(6 ** ln):
            f.add('C14/robust/len=%d,classes=%d' % (ln, code), 'h_robust', ln, code, unwind=16)
    return [f]
