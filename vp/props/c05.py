from run import Family
from props.c02 import CLS, CONTAINER_ELEMS

BOUNDS = {'str/ustr/mbuff': 'dup independence from every state shape (length 0..3, slack, empty state); comp laws on triples of lengths 0..2 (thorough 0..3) with symbolic bytes',
          'containers': 'list/vector/map flavour of each class, n = 0..3 elements; comp on pairs of lists of lengths 0..2 with symbolic element values',
          'obj comp': 'three symbolic 63-bit addresses', 'objpair': 'symbolic keys/values 0..3', 'tok/url/regexp': 'concrete small texts (pcre_compile outcome symbolic)'}
RULE = 'C05 shapes: (class, scenario, sizes).'
ASSUMPTIONS = ['pcre_compile/pcre_exec are stubs (fresh block or NULL); tok/url/regexp scenarios use concrete texts because symbolic text makes every strlen()-derived allocation size symbolic',
               'dlinked_list containers compare by object address (the class documents no value order): only the order laws are asserted for them']
KIND = ['list', 'vector', 'map']
ALL_UNITS = ['array.c', 'linked_list.c', 'dlinked_list.c', 'obj.c', 'objpair.c', 'str.c', 'tok.c', 'url.c', 'regexp.c', 'strings.c', 'debug.c']


def families(tier):
    q = tier == 'quick'
    L = 2 if q else 3
    cap = (120, 3) if q else (400, 12)
    fams = []
    for cls in ('str', 'ustr'):
        f = Family('c05_' + cls, 'c01_str.c', units=[cls + '.c', 'obj.c', 'strings.c', 'debug.c'] + (['str.c'] if cls == 'ustr' else []),
                   stubs=['msgs_stub.c', 'libc_models.c'], defines=(['USTR'] if cls == 'ustr' else []), unwind=9, cap=cap)
        for ln in range(0, 4):
            for sl in ([-1] if ln == 0 else []) + [0, 2]:
                f.add('C05/%s/dup/len=%d,slack=%s' % (cls, ln, 'E' if sl < 0 else sl), 'h_dup_indep', ln, sl)
        for a in range(L + 1):
            for b in range(L + 1):
                for c in range(L + 1):
                    f.add('C05/%s/comp/lens=%d.%d.%d' % (cls, a, b, c), 'h_comp_laws', a, b, c)
        fams.append(f)
    f = Family('c05_mbuff', 'c07_mbuff.c', units=['mbuff.c', 'obj.c', 'str.c', 'strings.c', 'debug.c'], stubs=['msgs_stub.c', 'libc_models.c'], unwind=9, cap=cap)
    for ln in range(0, 4):
        for sl in ([-1] if ln == 0 else []) + [0, 2]:
            f.add('C05/mbuff/dup/len=%d,slack=%s' % (ln, 'E' if sl < 0 else sl), 'h_dup_indep', ln, sl)
    for a in range(L + 1):
        for b in range(L + 1):
            for c in range(L + 1):
                f.add('C05/mbuff/comp/lens=%d.%d.%d' % (a, b, c), 'h_comp_laws', a, b, c)
    fams.append(f)
    g = Family('c05_protocol', 'c05_protocol.c', units=ALL_UNITS, stubs=['msgs_stub.c', 'libc_models.c', 'fmt_stub.c', 'ptr_models.c', 'pcre_stub.c', 'env_net.c'],
               unwind=10, cap=(200, 6) if q else (600, 12), flags=['--object-bits', '11'], restrict=True,
               elem_restrict=(CONTAINER_ELEMS[0], CONTAINER_ELEMS[1] + ('spif_str_',)),
               unwindset=['spif_objpair_comp:3', 'spif_objpair_del:3', 'spif_objpair_done:3', 'spif_objpair_dup:3', 'spif_linked_list_comp:4'])
    for ci, cn in enumerate(CLS):
        for ki, kn in enumerate(KIND):
            for n in range(0, 4 if q else 5):
                g.add('C05/%s_%s/dup/n=%d' % (cn, kn, n), 'h_dup_container', ci, ki, n)
        for n1 in range(0, 3):
            for n2 in range(0, 3):
                g.add('C05/%s/comp/n1=%d,n2=%d' % (cn, n1, n2), 'h_comp_container', ci, n1, n2)
    g.add('C05/obj/comp', 'h_comp_obj')
    g.add('C05/objpair/protocol', 'h_pair')
    g.add('C05/tok/unevaluated', 'h_tok', 0)
    g.add('C05/tok/evaluated', 'h_tok', 1)
    g.add('C05/url/protocol', 'h_url')
    g.add('C05/regexp/protocol', 'h_regexp', 0)
    g.add('C05/regexp/protocol,flags=im', 'h_regexp', 1)
    fams.append(g)
    return fams
