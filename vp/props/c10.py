from run import Family

NALPHA = 13
BOUNDS = {
    'quick': {'text': 'every string of length 0..2 and every 4th of length 3 over {a _ space ~ \\ n $ { } ( ) " \'}; every string of length 4 and a 16th of length 5 over each of the sub-alphabets {\' \\ ~ a}, {" \\ $ a}, {$ { } a} (shape)', 'environment': 'HOME and every referenced name independently unset / empty / 1-2 arbitrary non-NUL bytes (symbolic)',
              'scratch memory': 'newbuff[], EnvVar, Command and the input buffer beyond its terminator start nondeterministic', 'CONFIG_BUFF': 'scaled to 64 through the LIBAST_VERIF_CONFIG_BUFF hook',
              '%-calls': '12 concrete skeletons over put/get/version with a symbolic store value', 'store': 'one step from every strictly ascending store of 0..3 entries, probe symbolic'},
    'thorough': {'text': 'length 0..3 over the 13-letter alphabet completely and an eighth of length 4 (a sixteenth for the over-read family), length 4..5 over the three sub-alphabets completely', 'environment': 'same', 'CONFIG_BUFF': 'same'},
}
SAMPLED = {'quick': 'length-3 texts over the 13-letter alphabet (every 4th) and length-5 sub-alphabet texts (a 16th) are samples; lengths 0..2 and sub-alphabet length 4 are complete', 'thorough': 'length-4 texts over the 13-letter alphabet are a sample (an eighth / a sixteenth); everything else is complete'}
RULE = 'C10 shapes: (text length, text index) - the text is concrete per query; environment, store contents and all uninitialised memory are symbolic.'
ASSUMPTIONS = ['the reference expander in harness/c10_expand.c transcribes the rules of the property statement; a trailing backslash stays as it is; "$" with an empty name expands to nothing',
               'backquote and %exec/%random/%dirscan results come from the OS and are outside the oracle',
               'the %-call function pointer is restricted to builtin_get/put/version/appname (restriction asserted)']


def families(tier):
    q = tier == 'quick'
    L = 3 if q else 4
    common = dict(units=['strings.c', 'debug.c', 'file.c'], stubs=['msgs_stub.c', 'libc_models.c', 'fmt_stub.c'],
                  defines=['LIBAST_VERIF_CONFIG_BUFF=64'], unwind=16, cap=(90, 3) if q else (300, 8), flags=['--object-bits', '10'],
                  restrict={'ptr': ['builtin_get', 'builtin_put', 'builtin_version', 'builtin_appname']},
                  unwindset=['spifconf_shell_expand:3'])
    f = Family('expand', 'c10_expand.c', note='differential: real expander vs reference expander, text as shape', **common)
    for ln in range(0, L + 1):
        for code in range(NALPHA ** ln):
            f.add('C10/expand/len=%d,text=%d' % (ln, code), 'h_expand', ln, code)
    fs = Family('expand_sub', 'c10_expand.c', note='longer texts over three 4-letter sub-alphabets (quote/escape/tilde, double quote/escape/reference, braced references)', **common)
    for sub, sn in enumerate(('squote', 'dquote', 'braces')):
        for ln in (4, 5):
            for code in range(4 ** ln):
                if ln == 5 and q and (code * 40503 + sub) % 65521 % 16 != 0:
                    continue
                fs.add('C10/expand_sub/%s/len=%d,text=%d' % (sn, ln, code), 'h_expand_sub', sub, ln, code)
    g = Family('overread', 'c10_expand.c', note='exact-size input object, empty environment', **common)
    for ln in range(0, L + 1):
        for code in range(NALPHA ** ln):
            g.add('C10/overread/len=%d,text=%d' % (ln, code), 'h_overread', ln, code)
    common = dict(common, unwind=40, cap=(200, 4) if q else (400, 8))
    h = Family('calls', 'c10_expand.c', note='%-calls and the variable store', **common)
    for w in range(12):
        for preset in (0, 1):
            if w == 4 and preset == 1:
                continue        # nested call on a symbolic value: exceeds 4 GB
            h.add('C10/percent/skeleton=%d,preset=%d' % (w, preset), 'h_percent', w, preset)
    for n in range(0, 4):
        for op, on in enumerate(('get', 'put', 'delete')):
            h.add('C10/store/%s/n=%d' % (on, n), 'h_store', n, op)
    if not q:
        # thorough: lengths 0..3 completely, an eighth (expansion) / a sixteenth (over-read) of length 4 by a scrambled index
        f.obls = [o for o in f.obls if not o.oid.startswith('C10/expand/len=4') or (o.args[1] * 40503 + 11) % 65521 % 8 == 0]
        g.obls = [o for o in g.obls if not o.oid.startswith('C10/overread/len=4') or (o.args[1] * 40503 + 5) % 65521 % 16 == 0]
    if q:
        # quick: lengths 0..2 completely, and every 4th string of length 3 (the full length-3 sweep is in thorough)
        f.obls = [o for o in f.obls if not o.oid.startswith('C10/expand/len=3') or (o.args[1] % 4 == 0)]
        g.obls = [o for o in g.obls if not o.oid.startswith('C10/overread/len=3')]
    return [f, fs, g, h]
