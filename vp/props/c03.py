from run import Family
from props.c02 import CLS, UNITS, CONTAINER_ELEMS

BOUNDS = {
    'quick': {'pairs n': '0..3', 'keys': 'symbolic strictly ascending 0..5 with symbolic probe -1..6 (queries, lists, and the two linked classes); array set/remove: every subset of {1,3,5} x probe keys 0..6 (shape)', 'values': 'symbolic 0..3'},
    'thorough': {'pairs n': '0..4', 'keys': 'same', 'values': 'same'},
}
RULE = 'C03 shapes: (class, operation, n or key subset[, probe key]).'
ASSUMPTIONS = ['Inv(map) = list invariant + every element a non-NULL pair with non-NULL key and value + keys strictly ascending',
               'keys and values are int-valued harness objects; set with a NULL value is outside the claim (C16)']


def families(tier):
    q = tier == 'quick'
    N = 3 if q else 4
    f = Family('maps', 'c03_maps.c', units=UNITS, stubs=['msgs_stub.c', 'libc_models.c', 'fmt_stub.c', 'ptr_models.c'], unwind=N + 6,
               cap=(120, 3) if q else (400, 12), flags=['--object-bits', '10'], restrict=True, elem_restrict=CONTAINER_ELEMS,
               unwindset=['spif_objpair_comp:3', 'spif_objpair_del:3', 'spif_objpair_done:3', 'spif_objpair_dup:3', 'spif_objpair_new_from_both:3', 'spif_objpair_init_from_both:3'])
    g = Family('maps_after_removal', 'c03_maps.c', units=UNITS, stubs=f.stubs, unwind=N + 6, cap=(300, 8) if q else (600, 12),
               flags=['--object-bits', '10'], restrict=True, elem_restrict=CONTAINER_ELEMS, unwindset=f.unwindset,
               note='two-step scenarios: the map must stay usable after removing its smallest / largest / a middle key')
    for ci, cn in enumerate(CLS):
        P = 'C03/%s/' % cn
        for n in range(0, N + 1):
            f.add(P + 'query/n=%d' % n, 'h_query', ci, n)
            for what, wn in enumerate(('get_keys', 'get_values', 'get_pairs')):
                for into in (0, 1):
                    f.add(P + '%s/n=%d,into=%s' % (wn, n, 'existing' if into else 'new'), 'h_lists', ci, n, what, into)
            if cn != 'array':
                f.add(P + 'set/n=%d,symbolic' % n, 'h_set', ci, n, -1, 0, 0)
                f.add(P + 'set_pair/n=%d,symbolic' % n, 'h_set', ci, n, -1, 0, 1)
                # (removing the only pair of a linked map yields a 30 M-clause formula: ~40-200 s, 6 GB; larger-cap family)
                g.add(P + 'remove/n=%d,symbolic' % n, 'h_remove', ci, n, -1, 0)
        if cn == 'array':
            for mask in range(8):
                for x in range(0, 7):
                    f.add(P + 'set/keys=%d,x=%d' % (mask, x), 'h_set', ci, 0, mask, x, 0)
                    f.add(P + 'remove/keys=%d,x=%d' % (mask, x), 'h_remove', ci, 0, mask, x)
                f.add(P + 'set_pair/keys=%d,x=3' % mask, 'h_set', ci, 0, mask, 3, 1)
                f.add(P + 'set_pair/keys=%d,x=4' % mask, 'h_set', ci, 0, mask, 4, 1)
        # (array: after a REALLOC CBMC hands pointers back as byte extracts, the next class dispatch fans out and the
        #  query exceeds 8 GB; the array has no auxiliary links a removal could leave stale, so the step claim covers it)
        for n in (range(1, N + 1) if cn != 'array' else ()):
            for which in sorted(set((0, n - 1, n // 2))):
                for newkey in (0, 4, 9):
                    g.add(P + 'remove_then_set/n=%d,remove=%d,newkey=%d' % (n, which, newkey), 'h_remove_then_set', ci, n, which, newkey)
    return [f, g]
