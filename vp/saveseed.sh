#!/bin/bash
# saveseed.sh <worktree> <name> : copy a confirmed seeded change into seeded/<name>/ (meta.json is written by hand)
wt=$1; name=$2
d=/verif/seeded/$name
mkdir -p $d
git -C $wt diff -- src include > $d/patch.diff
cp $wt/MUTANT/demo.c $wt/MUTANT/demo.sh $wt/MUTANT/notes.md $d/ 2>/dev/null
ls $d
