#!/usr/bin/env python3
"""setup_cmd: offline sanity check of the tool chain the checks need (nothing is fetched or cached)."""
import shutil, subprocess, sys, os
need = ['cbmc', 'goto-cc', 'goto-instrument', 'kissat', 'clang', 'gcc', 'python3']
missing = [t for t in need if shutil.which(t) is None]
if missing:
    print('missing tools:', missing)
    sys.exit(1)
v = subprocess.run(['cbmc', '--version'], stdout=subprocess.PIPE, text=True).stdout.strip()
print('cbmc', v)
for d in ('evidence', 'replay'):
    os.makedirs(os.path.join(os.path.dirname(os.path.dirname(os.path.abspath(__file__))), d), exist_ok=True)
print('setup ok')
