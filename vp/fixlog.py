#!/usr/bin/env python3
"""fixlog.py <PID> "<what failed>"  -- records HEAD of /repo as a fixed: entry in known_findings.json"""
import json, sys, subprocess, os
V = os.path.dirname(os.path.dirname(os.path.abspath(__file__)))
p = os.path.join(V, 'known_findings.json')
d = json.load(open(p))
rev = sys.argv[3] if len(sys.argv) > 3 else 'HEAD'
sha = subprocess.run(['git', '-C', '/repo', 'log', '-1', '--format=%h %s', rev], stdout=subprocess.PIPE, text=True).stdout.strip()
commit, subject = sha.split(' ', 1)
assert subject.startswith('fix:'), subject
d['fixed'].append({'property': sys.argv[1], 'commit': commit, 'subject': subject,
                   'line': 'fixed: property=%s %s %s' % (sys.argv[1], commit, sys.argv[2])})
json.dump(d, open(p, 'w'), indent=1)
print(d['fixed'][-1]['line'])
