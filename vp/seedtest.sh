#!/bin/bash
# seedtest.sh <worktree> <property> : confirm a seeded change (baseline passes, demo fails with / passes without) and run the check against it
wt=$1; pid=$2
cd $wt || exit 2
echo "== baseline with change: $(/verif/vp/baseline.sh $wt | tail -1)"
bash MUTANT/demo.sh > /tmp/seed_demo_with.log 2>&1; echo "== demo with change: exit $?"
git diff -- src include > /tmp/seed_patch.diff
git checkout -- src include
make -s > /dev/null 2>&1
bash MUTANT/demo.sh > /tmp/seed_demo_without.log 2>&1; echo "== demo without change: exit $?"
git apply /tmp/seed_patch.diff
make -s > /dev/null 2>&1
cd /verif
VERIF_REPO=$wt python3 vp/run.py $pid --no-evidence --max-replays 4 --jobs ${SEEDJOBS:-16} > /tmp/seed_check_$pid.log 2>&1; echo "== check exit $?"
grep "^VIOLATION\|obligation=" /tmp/seed_check_$pid.log | head -6 | cut -c1-260
tail -1 /tmp/seed_check_$pid.log
