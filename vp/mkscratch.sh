#!/bin/bash
# mkscratch.sh <dir>: scratch git worktree of /repo HEAD with the (git-ignored) configure outputs copied in, ready for make.
set -e
d=$1
git -C /repo worktree add --detach "$d" HEAD >/dev/null 2>&1
rsync -a --ignore-existing --exclude .git --exclude '*.o' --exclude '*.lo' --exclude '.libs' --exclude '*.la' --exclude 'test/libast-test' --exclude 'test/libast-perf' --exclude autom4te.cache /repo/ "$d"/
echo "scratch worktree at $d"
