#!/usr/bin/env python3
"""Regenerates MANIFEST.json from the table below (keeps it schema-valid at all times)."""
import json, os, subprocess
VERIF = os.path.dirname(os.path.dirname(os.path.abspath(__file__)))

COMMON_NOTE = ('Trusted: CBMC 6.11 front end/memory model, the SAT back ends, the harness oracle and invariant in harness/%s, '
               'the environment stubs in stubs/. Bounded: nothing is claimed outside the shape ranges and unwinding bounds '
               'reported in the evidence file. Allocation failure is out of scope.')

# pid -> (harness file, technique, claim text, design ref)
CLAIMED = {}
PENDING = {}

def claim(pid, harness, technique, text, ref):
    CLAIMED[pid] = (harness, technique, text, ref)

exec(open(os.path.join(VERIF, 'vp', 'claims.py')).read())

def main():
    hooks_commits = []
    try:
        out = subprocess.run(['git', '-C', '/repo', 'log', '--format=%H %s'], stdout=subprocess.PIPE, text=True).stdout
        hooks_commits = [l.split()[0] for l in out.splitlines() if l.split(' ', 1)[1].startswith('verif-hook:')]
    except Exception:
        pass
    checks = []
    for pid in sorted(CLAIMED):
        harness, technique, text, ref = CLAIMED[pid]
        checks.append({
            'property_id': pid,
            'quick_cmd': 'python3 vp/run.py %s --tier quick' % pid,
            'thorough_cmd': 'python3 vp/run.py %s --tier thorough' % pid,
            'evidence_file': 'evidence/%s.json' % pid,
            'replay_cmd_template': 'python3 vp/run.py --replay {path}',
            'engine': 'cbmc',
            'level_claimed': {'category': 'model_checking', 'text': text, 'design_ref': ref},
            'level_note': COMMON_NOTE % harness,
            'technique': technique,
        })
    props = [json.loads(l)['id'] for l in open(os.path.join(VERIF, 'properties.jsonl'))]
    na = [{'property_id': p, 'reason': PENDING.get(p, 'check not built yet in this session; see DESIGN.md section 4 for the plan')}
          for p in props if p not in CLAIMED]
    m = {
        'version': 1,
        'setup_cmd': 'python3 vp/setup.py',
        'hooks': {
            'guard': 'LIBAST_VERIF',
            'enable': 'checks compile /repo/src/*.c with goto-cc -DLIBAST_VERIF (plus -DLIBAST_VERIF_BUFF_INC=<n> / -DLIBAST_VERIF_CONFIG_BUFF=<n> / -DLIBAST_VERIF_PATH_MAX=<n> where a check scales a size constant)',
            'baseline_off_cmd': 'bash vp/baseline.sh',
            'source_commits': hooks_commits,
            'add_only': True,
        },
        'engines': [{'name': 'cbmc', 'path': 'vp/run.py', 'serves_properties': sorted(CLAIMED),
                     'kind_free_text': 'bounded symbolic execution of the real C translation units (goto-cc + cbmc 6.11, cadical/kissat back ends), counterexamples replayed natively under ASan/UBSan'}],
        'checks': checks,
        'not_applicable': na,
        'notes': 'Solver-based checking only. Every check rebuilds goto binaries from /repo on each run. known_findings.json lists recorded defects (KNOWN-FINDING lines) and fixed ones.',
    }
    json.dump(m, open(os.path.join(VERIF, 'MANIFEST.json'), 'w'), indent=1)
    print('MANIFEST.json: %d checks, %d not_applicable' % (len(checks), len(na)))

if __name__ == '__main__':
    main()
