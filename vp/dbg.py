#!/usr/bin/env python3
"""dbg.py PID PATTERN [tier] [-- extra cbmc args]: build the family, run the first matching obligation, print non-SUCCESS lines + timing."""
import sys, os, subprocess, time, shutil
sys.path.insert(0, os.path.dirname(os.path.abspath(__file__)))
import run
pid, pat = sys.argv[1], sys.argv[2]
extra = sys.argv[sys.argv.index('--') + 1:] if '--' in sys.argv else []
tier = sys.argv[3] if len(sys.argv) > 3 and sys.argv[3] in ('quick', 'thorough') else 'quick'
mod = run.load_prop(pid)
wd = '/tmp/t/dbg_' + pid
shutil.rmtree(wd, ignore_errors=True)
os.makedirs(wd)
for fam in mod.families(tier):
    os_ = [o for o in fam.obls if pat in o.oid]
    if not os_:
        continue
    run.build_family(fam, wd)
    o = os_[0]
    unwind = o.kw.get('unwind', fam.unwind)
    cmd = ['cbmc', fam.gb, '--function', o.entry, '--unwind', str(unwind), '--unwinding-assertions', '--pointer-overflow-check',
           '--drop-unused-functions', '--no-malloc-may-fail'] + fam.flags + list(o.kw.get('flags', ()))
    for u in list(fam.unwindset) + list(o.kw.get('unwindset', ())):
        cmd += ['--unwindset', u]
    if 'ptr_models.c' in fam.stubs:
        cmd += ['--unwindset', 'verif_copy.0:22', '--unwindset', 'verif_copy.1:22', '--unwindset', 'verif_copy.2:162', '--unwindset', 'verif_copy.3:162']
    spec = list(fam.loopspec) + list(o.kw.get('loopspec', ()))
    if spec:
        cmd += run.loopspec_args(fam, spec)
    if fam.leak:
        cmd += ['--memory-leak-check']
    if not any(e.startswith(('--sat-solver', '--external', '--z3')) for e in extra):
        cmd += run.BACKENDS[o.kw.get('backend', fam.backend)]
    cmd += extra
    print(o.oid, ' '.join(cmd))
    t = time.time()
    out = subprocess.run(['/usr/bin/time', '-f', 'RSS=%MKB'] + cmd, stdout=subprocess.PIPE, stderr=subprocess.STDOUT, text=True).stdout
    for l in out.splitlines():
        if ('SUCCESS' in l and 'VERIFICATION' not in l) or not l.strip() or 'function ' in l and l.strip().endswith(tuple('abcdefghijklmnopqrstuvwxyz_0123456789')) and '[' not in l:
            continue
        if 'UNKNOWN' in l:
            continue
        print(l)
    print('wall %.1fs' % (time.time() - t))
    break
