#!/bin/bash
# Runs every claimed check (quick tier by default) in sequence; used to regenerate evidence/*.json.
cd "$(dirname "$0")/.."
tier=${1:-quick}
for id in $(python3 -c "import json;print(' '.join(c['property_id'] for c in json.load(open('MANIFEST.json'))['checks']))"); do
  python3 vp/run.py $id --tier $tier > /tmp/verif_runall_$id.log 2>&1
  echo "$id exit=$? $(tail -1 /tmp/verif_runall_$id.log)"
done
