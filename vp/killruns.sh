#!/bin/bash
pkill -f "vp/run[.]py"
sleep 1
pkill -9 cbmc
pkill -9 kissat
true
