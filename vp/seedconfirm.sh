#!/bin/bash
# seedconfirm.sh <worktree>: baseline with the change, demo with / without the change (no check run)
wt=$1
cd $wt || exit 2
echo "baseline with change: $(/verif/vp/baseline.sh $wt | tail -1)"
bash MUTANT/demo.sh > /dev/null 2>&1; echo "demo with change: exit $?"
git diff -- src include > /tmp/seed_patch.diff
git checkout -- src include; make -s > /dev/null 2>&1
bash MUTANT/demo.sh > /dev/null 2>&1; echo "demo without change: exit $?"
git apply /tmp/seed_patch.diff; make -s > /dev/null 2>&1
