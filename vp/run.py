#!/usr/bin/env python3
"""Driver: bounded symbolic checking of mej/libast with CBMC.

  python3 vp/run.py C01 --tier quick|thorough [--only SUBSTR] [--jobs N]
  python3 vp/run.py --replay /verif/replay/C01/<obligation>.json

Every run rebuilds the goto binaries from $VERIF_REPO (default /repo), decides
each obligation with CBMC (SAT/SMT back end), replays counterexamples natively
(ASan/UBSan) and writes evidence/<id>.json.  Exit 0: property held on all
obligations explored (known findings are printed and tolerated); exit 1: a
VIOLATION line was printed; exit 2: machinery fault (vacuous harness, build
failure, nothing decided).
"""
import sys, os, re, json, time, shutil, hashlib, tempfile, subprocess, argparse, importlib, fnmatch, threading
from concurrent.futures import ThreadPoolExecutor, as_completed

VERIF = os.path.dirname(os.path.dirname(os.path.abspath(__file__)))
REPO = os.environ.get('VERIF_REPO', '/repo')
sys.path.insert(0, os.path.join(VERIF, 'vp'))

GUARD = 'LIBAST_VERIF'
CAPS = {'quick': (90, 3), 'thorough': (400, 12)}       # (seconds, GB) per query
BACKENDS = {
    'cadical': ['--sat-solver', 'cadical'],
    'minisat': [],
    'kissat': ['--external-sat-solver', 'kissat'],
    'z3': ['--z3'],
}
BASE_FLAGS = ['--unwinding-assertions', '--pointer-overflow-check', '--drop-unused-functions',
              '--no-malloc-may-fail', '--json-ui', '--trace', '--verbosity', '4']


def log(*a):
    print(*a, file=sys.stderr, flush=True)


class Obl:
    def __init__(self, oid, body, args, **kw):
        self.oid, self.body, self.args, self.kw = oid, body, tuple(args), kw
        self.entry = None
        self.status = None      # discharged | violated | known | inconclusive | vacuous
        self.labels = []
        self.detail = ''
        self.wall = 0.0
        self.rss_kb = 0
        self.inputs = []
        self.backend = None
        self.functions = []


class Family:
    """One goto binary: harness TU + repo units + stubs, with many obligations."""

    def __init__(self, name, harness, units=(), stubs=('msgs_stub.c',), defines=(), debug=None,
                 unwind=8, unwindset=(), flags=(), backend='cadical', fallback=('kissat',),
                 restrict=None, note='', cap=None, leak=False, loopspec=(), elem_restrict=None):
        self.name, self.harness = name, harness
        self.units = list(units)
        self.stubs = list(stubs)
        self.defines = list(defines)
        self.debug = debug
        self.unwind, self.unwindset, self.flags = unwind, list(unwindset), list(flags)
        self.backend, self.fallback = backend, list(fallback)
        self.restrict = restrict
        self.note = note
        self.cap = cap
        self.leak = leak
        self.loopspec = list(loopspec)
        self.elem_restrict = elem_restrict
        self.obls = []
        self.gb = None
        self.build_error = None

    def add(self, oid, body, *args, **kw):
        o = Obl(oid, body, args, **kw)
        o.family = self
        self.obls.append(o)
        return o


# ---------------------------------------------------------------- building

def cflags(fam, workdir):
    fl = []
    if fam.debug is not None:
        # a derived config.h (the repository's minus its DEBUG line) shadows /repo/config.h
        fl += ['-I' + os.path.join(workdir, 'cfg'), '-DDEBUG=%d' % fam.debug]
    fl += ['-I' + REPO, '-I' + REPO + '/include', '-I' + REPO + '/include/libast', '-I' + REPO + '/src',
           '-I' + VERIF + '/harness', '-I' + VERIF + '/stubs', '-I' + workdir, '-D' + GUARD, '-DHAVE_CONFIG_H']
    fl += ['-D' + d for d in fam.defines]
    return fl


def derive_config(workdir):
    """<workdir>/cfg/config.h = /repo/config.h without its DEBUG line (DESIGN 2.2)."""
    d = os.path.join(workdir, 'cfg')
    out = os.path.join(d, 'config.h')
    if os.path.exists(out):
        return
    os.makedirs(d, exist_ok=True)
    src = open(os.path.join(REPO, 'config.h')).read().splitlines()
    keep = [l for l in src if not re.match(r'\s*#\s*define\s+DEBUG\b', l)]
    open(out, 'w').write('\n'.join(keep) + '\n')


_build_lock = threading.Lock()
_unit_cache = {}


def sh(cmd, timeout=600, cwd=None):
    p = subprocess.run(cmd, stdout=subprocess.PIPE, stderr=subprocess.STDOUT, text=True, timeout=timeout, cwd=cwd)
    return p.returncode, p.stdout


def compile_gb(src, out, flags):
    rc, o = sh(['goto-cc', '-c', '-o', out, src] + flags)
    if rc != 0:
        raise RuntimeError('goto-cc failed for %s:\n%s' % (src, o[-3000:]))


def write_entries(fam, path, replay_entry=None):
    lines = ['/* generated */']
    for i, o in enumerate(fam.obls):
        o.entry = 'e_%d' % i
        if replay_entry is not None and o.entry != replay_entry:
            continue
        lines.append('void %s(void) { %s(%s); }' % (o.entry, o.body, ', '.join(str(a) for a in o.args)))
    if replay_entry is not None:
        lines.append('#ifdef REPLAY\nvoid verif_load_inputs(const char *);\n'
                     'int main(int argc, char **argv) { if (argc > 1) verif_load_inputs(argv[1]); %s(); return 0; }\n#endif'
                     % replay_entry)
    open(path, 'w').write('\n'.join(lines) + '\n')


def build_family(fam, workdir):
    fdir = os.path.join(workdir, 'fam_' + re.sub(r'\W', '_', fam.name))
    os.makedirs(fdir, exist_ok=True)
    if fam.debug is not None:
        derive_config(workdir)
    fl = cflags(fam, fdir if fam.debug is None else workdir)
    if fam.debug is not None:
        fl.append('-I' + fdir)
    write_entries(fam, os.path.join(fdir, 'entries.inc'))
    objs = []
    key_base = (tuple(fam.defines), fam.debug)
    for u in fam.units:
        key = (u,) + key_base
        with _build_lock:
            cached = _unit_cache.get(key)
        if cached is None:
            out = os.path.join(workdir, 'u_%s_%s.gb' % (u.replace('.', '_'), hashlib.md5(repr(key).encode()).hexdigest()[:8]))
            compile_gb(os.path.join(REPO, 'src', u), out, fl)
            with _build_lock:
                _unit_cache[key] = out
            cached = out
        objs.append(cached)
    for s in fam.stubs + ['../harness/verif_rt.c']:
        out = os.path.join(fdir, 's_' + os.path.basename(s).replace('.', '_') + '.gb')
        compile_gb(os.path.join(VERIF, 'stubs', s), out, fl)
        objs.append(out)
    hout = os.path.join(fdir, 'harness.gb')
    compile_gb(fam.harness if os.path.isabs(fam.harness) else os.path.join(VERIF, 'harness', fam.harness), hout, fl + ['-DVERIF_ENTRIES="entries.inc"', '-I' + fdir])
    objs.append(hout)
    gb = os.path.join(fdir, 'fam.gb')
    rc, o = sh(['goto-cc', '-o', gb] + objs)
    if rc != 0:
        raise RuntimeError('goto-cc link failed for %s:\n%s' % (fam.name, o[-3000:]))
    if fam.restrict:
        gb = apply_restrict(fam, gb, fdir)
    fam.gb = gb
    fam.fdir = fdir
    if fam.loopspec or any('loopspec' in o.kw for o in fam.obls):
        resolve_loops(fam)


SLOT_SUFFIX = {
    'noo': ('_new', '_noo'), 'init': ('_init',), 'done': ('_done',), 'del': ('_del',), 'show': ('_show',), 'comp': ('_comp',),
    'dup': ('_dup',), 'type': ('_type',),
    'append': ('_append',), 'contains': ('_contains',), 'count': ('_count',), 'find': ('_find',), 'get': ('_get',),
    'index': ('_index',), 'insert': ('_insert',), 'insert_at': ('_insert_at',), 'iterator': ('_iterator',),
    'prepend': ('_prepend',), 'remove': ('_remove',), 'remove_at': ('_remove_at',), 'reverse': ('_reverse',),
    'to_array': ('_to_array',), 'get_keys': ('_get_keys',), 'get_pairs': ('_get_pairs',), 'get_values': ('_get_values',),
    'has_key': ('_has_key',), 'has_value': ('_has_value',), 'set': ('_set',), 'has_next': ('_has_next',), 'next': ('_next',),
}


def fp_call_sites(gb):
    """(function, ordinal, slot) for every call through a function pointer, from the goto program."""
    rc, out = sh(['goto-instrument', '--show-goto-functions', gb], timeout=300)
    funcs, calls, cur, k = set(), [], None, 0
    for line in out.splitlines():
        m = re.match(r'^(\S+) /\* (\S+) \*/$', line)
        if m:
            cur, k = m.group(1), 0
            funcs.add(cur)
            continue
        if 'CALL ' not in line or cur is None:
            continue
        callee = line.split('CALL ', 1)[1]
        head = callee.split('(', 1)[0]
        if ':=' in head:
            callee = callee.split(':=', 1)[1].strip()
        if not callee.startswith('*'):
            continue
        k += 1
        # find the parenthesis that closes the callee expression "*( ... .slot)"
        depth, end = 0, None
        for i, ch in enumerate(callee):
            if ch == '(':
                depth += 1
            elif ch == ')':
                depth -= 1
                if depth == 0:
                    end = i
                    break
        slot = None
        if end is not None:
            m = re.search(r'\.(\w+)$', callee[:end])
            if m:
                slot = m.group(1)
        calls.append((cur, k, slot))
    return funcs, calls


def apply_restrict(fam, gb, fdir):
    """fam.restrict: dict slot -> explicit target list (overrides), or True for the naming-convention
    defaults only.  Every call through a class-table slot is restricted to the functions in the binary
    that can legitimately sit in that slot (by libast's naming convention: *_comp for comp, ...).  The
    restriction is itself asserted by goto-instrument, so a call that leaves the set is reported, not
    hidden.  Call sites are re-derived from the goto program on every run and all restrictions are
    given to ONE goto-instrument invocation (DESIGN 3.4)."""
    funcs, calls = fp_call_sites(gb)
    over = fam.restrict if isinstance(fam.restrict, dict) else {}
    args, nrest = [], 0
    for fn, k, slot in calls:
        er = getattr(fam, 'elem_restrict', None)
        if slot in over:
            targets = [t for t in over[slot] if t in funcs]
        elif er and slot in ('comp', 'dup', 'del', 'show', 'type', 'init', 'done') and fn.startswith(er[0]):
            # inside a container implementation the object-protocol slots are only ever invoked on
            # elements, and the harness only stores elements of the listed classes
            targets = sorted(f for f in funcs if f.endswith(SLOT_SUFFIX[slot]) and f.startswith(er[1]))
        elif slot in SLOT_SUFFIX:
            suf = SLOT_SUFFIX[slot]
            targets = sorted(f for f in funcs if f.endswith(suf) and f.startswith(('spif_', 'vint_', 'vcls_')))
        else:
            continue
        if not targets:
            continue
        args += ['--restrict-function-pointer', '%s.function_pointer_call.%d/%s' % (fn, k, ','.join(targets))]
        nrest += 1
    fam.fp_sites, fam.fp_restricted = len(calls), nrest
    if not args:
        return gb
    outgb = os.path.join(fdir, 'fam_r.gb')
    rc, out = sh(['goto-instrument'] + args + [gb, outgb], timeout=600)
    if rc != 0:
        raise RuntimeError('restrict-function-pointer failed:\n' + out[-3000:])
    return outgb


def resolve_loops(fam):
    """Map (function, source-line regex) -> loop ids, from goto-instrument --show-loops on the
    binary just built (never from remembered ordinals; DESIGN 3.5)."""
    rc, out = sh(['goto-instrument', '--show-loops', fam.gb], timeout=300)
    loops = []          # (loopid, function, file, line)
    cur = None
    for l in out.splitlines():
        m = re.match(r'Loop (\S+)\.(\d+):', l)
        if m:
            cur = (m.group(1) + '.' + m.group(2), m.group(1))
            continue
        m = re.search(r'file (\S+) line (\d+)', l)
        if m and cur:
            loops.append((cur[0], cur[1], m.group(1), int(m.group(2))))
            cur = None
    fam.loops = loops
    fam._src_cache = {}


def loop_ids(fam, function, regex):
    ids = []
    for lid, fn, path, line in fam.loops:
        if fn != function:
            continue
        if path not in fam._src_cache:
            try:
                fam._src_cache[path] = open(path, errors='replace').read().splitlines()
            except Exception:
                fam._src_cache[path] = []
        src = fam._src_cache[path]
        text = src[line - 1] if 0 < line <= len(src) else ''
        if re.search(regex, text):
            ids.append(lid)
    return ids


def loopspec_args(fam, spec):
    args = []
    for function, regex, bound in spec:
        ids = loop_ids(fam, function, regex)
        if not ids:
            # the loop head no longer reads as expected (source changed): fall back to the family's global
            # --unwind for it - slower, never less sound (unwinding assertions stay on)
            fam.notes_runtime = getattr(fam, 'notes_runtime', set()) | {'loopspec: no loop in %s matches /%s/; global unwind bound used' % (function, regex)}
            continue
        for lid in ids:
            args += ['--unwindset', '%s:%d' % (lid, bound)]
    return args


# ---------------------------------------------------------------- running one query

def label_of(prop):
    pid = prop.get('property', '')
    desc = prop.get('description', '')
    parts = pid.split('.')
    fn = parts[0] if parts else ''
    cls = parts[1] if len(parts) > 1 else ''
    if cls == 'assertion':
        return desc
    if cls in ('unwind', 'recursion'):
        return 'unwind:' + fn
    if cls.startswith('precondition_instance'):
        return 'mem:' + fn + ':precondition'
    if cls == 'no-body':
        return 'no-body:' + (parts[2] if len(parts) > 2 else fn)
    return 'mem:' + fn + ':' + cls


def parse_cbmc_json(text):
    try:
        data = json.loads(text)
    except Exception:
        # truncated output (killed): try to salvage nothing
        return None, 'unparseable output'
    results, status, errors = None, None, []
    for item in data:
        if not isinstance(item, dict):
            continue
        if 'result' in item:
            results = item['result']
        if 'cProverStatus' in item:
            status = item['cProverStatus']
        if item.get('messageType') == 'ERROR':
            errors.append(item.get('messageText', ''))
    if results is None:
        return None, 'no result list (%s) %s' % (status, '; '.join(errors)[:500])
    return results, None


def trace_inputs(prop):
    vals = []
    for st in prop.get('trace', []) or []:
        if st.get('stepType') == 'assignment' and st.get('lhs') == 'verif_in_v' and st.get('sourceLocation', {}).get('function') == 'V_RANGE':
            v = st.get('value', {})
            d = v.get('data')
            try:
                vals.append(int(str(d).rstrip('lL')))
            except Exception:
                vals.append(0)
    return vals


_children = set()


def kill_group(p):
    import signal
    try:
        os.killpg(os.getpgid(p.pid), signal.SIGKILL)
    except Exception:
        try:
            p.kill()
        except Exception:
            pass


def kill_all_children(*a):
    for p in list(_children):
        kill_group(p)
    if a:
        os._exit(130)


class MemPool:
    """Queries reserve their address-space cap from a global budget, so that the sum of the caps of
    the queries in flight never exceeds what the machine has (the OOM killer otherwise takes the driver)."""

    def __init__(self, total):
        self.total, self.used, self.cv = total, 0, threading.Condition()

    def acquire(self, n):
        n = min(n, self.total)
        with self.cv:
            while self.used + n > self.total:
                self.cv.wait()
            self.used += n
        return n

    def release(self, n):
        with self.cv:
            self.used -= n
            self.cv.notify_all()


MEM = MemPool(int(os.environ.get('VERIF_MEM_GB', '52')))


def run_query(o, tier, backend):
    got = MEM.acquire((o.family.cap or CAPS[tier])[1])
    try:
        return run_query_(o, tier, backend)
    finally:
        MEM.release(got)


def run_query_(o, tier, backend):
    fam = o.family
    secs, gb_cap = fam.cap or CAPS[tier]
    secs = o.kw.get('secs', secs)
    unwind = o.kw.get('unwind', fam.unwind)
    cmd = ['cbmc', fam.gb, '--function', o.entry, '--unwind', str(unwind)] + BASE_FLAGS
    for u in list(fam.unwindset) + list(o.kw.get('unwindset', ())):
        cmd += ['--unwindset', u]
    if 'ptr_models.c' in fam.stubs:
        cmd += ['--unwindset', 'verif_copy.0:22', '--unwindset', 'verif_copy.1:22', '--unwindset', 'verif_copy.2:162', '--unwindset', 'verif_copy.3:162']
    spec = list(fam.loopspec) + list(o.kw.get('loopspec', ()))
    if spec:
        cmd += loopspec_args(fam, spec)
    cmd += fam.flags + list(o.kw.get('flags', ()))
    if fam.leak:
        cmd += ['--memory-leak-check']
    cmd += BACKENDS[backend]
    t0 = time.time()
    wrapped = ['/usr/bin/time', '-f', 'VERIF_RSS_KB=%M', '-o', os.path.join(fam.fdir, o.entry + '.rss')] + cmd
    lim = 'ulimit -v %d; exec "$@"' % (gb_cap * 1024 * 1024)
    p = subprocess.Popen(['bash', '-c', lim, 'bash'] + wrapped, stdout=subprocess.PIPE, stderr=subprocess.PIPE,
                         text=True, errors='replace', start_new_session=True,
                         env=dict(os.environ, TMPDIR=fam.fdir))      # solver scratch files die with the work directory
    _children.add(p)
    try:
        out, err = p.communicate(timeout=secs)
        timed_out = False
        p.stderr_text = err
    except subprocess.TimeoutExpired:
        kill_group(p)
        try:
            p.communicate(timeout=10)
        except Exception:
            pass
        out, timed_out = '', True
    finally:
        _children.discard(p)
    wall = time.time() - t0
    rss = 0
    try:
        m = re.search(r'VERIF_RSS_KB=(\d+)', open(os.path.join(fam.fdir, o.entry + '.rss')).read())
        rss = int(m.group(1)) if m else 0
        os.unlink(os.path.join(fam.fdir, o.entry + '.rss'))
    except Exception:
        pass
    o.wall += wall
    o.rss_kb = max(o.rss_kb, rss)
    o.backend = backend
    o.cmd = ' '.join(cmd)
    if timed_out:
        return 'inconclusive', 'timeout %ds (%s)' % (secs, backend)
    results, err = parse_cbmc_json(out)
    if results is None and 'too large for flattening' in (err or ''):
        # the program asks for an allocation/array so large (typically a negative length turned size_t) that
        # CBMC cannot encode it: no trace exists, so the obligation is handed to the native replay with the
        # harness defaults (all symbolic inputs 0); only a reproducing run is reported
        o.labels = ['cbmc:allocation-too-large-to-encode']
        o.inputs = []
        o.fail_detail = [{'label': o.labels[0], 'property': '', 'description': err, 'location': ''}]
        return 'failed', ''
    if results is None:
        return 'inconclusive', '%s (%s, rc=%s) %s' % (err, backend, p.returncode, (getattr(p, 'stderr_text', '') or '')[-300:])
    fails, witness, unknown = [], None, []
    fns = set()
    for r in results:
        lab = label_of(r)
        st = r.get('status')
        fn = r.get('sourceLocation', {}).get('function')
        if fn:
            fns.add(fn)
        if lab == 'witness':
            # several witness assertions may exist (one per exit of the harness): reachable if any is
            if st == 'FAILURE':
                witness = st
                o.witness_inputs = trace_inputs(r)
            elif witness != 'FAILURE':
                witness = st if witness in (None, 'SUCCESS') else witness
            continue
        if st == 'FAILURE':
            fails.append((lab, r))
        elif st != 'SUCCESS':
            unknown.append(lab + '=' + str(st))
    o.functions = sorted(fns)
    o.nprops = len(results)
    if witness is None:
        return 'vacuous', 'harness has no witness assertion'
    if witness not in ('FAILURE', 'SUCCESS') and not fails:
        return 'inconclusive', 'solver gave no verdict (witness status %s)' % witness
    if witness != 'FAILURE' and not any(l.startswith('unwind:') for l, _ in fails):
        return 'vacuous', 'witness assertion not reachable (status %s): assumptions unsatisfiable or path cut' % witness
    if not fails:
        if unknown:
            return 'inconclusive', 'undecided properties: ' + ', '.join(unknown[:5])
        return 'discharged', ''
    o.labels = sorted(set(l for l, _ in fails))
    nb = [l for l in o.labels if l.startswith('no-body:')]
    if nb:
        return 'inconclusive', 'no CBMC model for called function(s): ' + ', '.join(nb)
    # keep the shortest trace's inputs for replay; prefer harness-level labels
    best = None
    for lab, r in fails:
        ins = trace_inputs(r)
        if best is None or (not lab.startswith(('mem:', 'unwind:')) and best[0].startswith(('mem:', 'unwind:'))):
            best = (lab, ins, r)
    o.inputs = best[1]
    o.fail_detail = [{'label': l, 'property': r.get('property'), 'description': r.get('description'),
                      'location': '%s:%s' % (r.get('sourceLocation', {}).get('file', ''), r.get('sourceLocation', {}).get('line', ''))}
                     for l, r in fails[:12]]
    return 'failed', ''


def decide(o, tier):
    fam = o.family
    order = [o.kw.get('backend', fam.backend)] + [b for b in fam.fallback if b != o.kw.get('backend', fam.backend)]
    st, detail = None, ''
    for be in order:
        try:
            st, detail = run_query(o, tier, be)
        except Exception as e:
            st, detail = 'inconclusive', 'driver error: %r' % (e,)
        if st in ('discharged', 'failed', 'vacuous'):
            break
    o.status, o.detail = st, detail
    return o


# ---------------------------------------------------------------- known findings

def load_known():
    p = os.path.join(VERIF, 'known_findings.json')
    if not os.path.exists(p):
        return []
    return json.load(open(p)).get('findings', [])


def match_known(o, pid, known):
    for k in known:
        if k.get('property') != pid:
            continue
        if not fnmatch.fnmatchcase(o.oid, k['obligation']):
            continue
        allowed = k.get('labels', [])
        if all(any(fnmatch.fnmatchcase(l, a) for a in allowed) for l in o.labels):
            return k
    return None


# ---------------------------------------------------------------- native replay

def native_build(fam, entry, outdir):
    """Compile the real sources + harness natively with ASan/UBSan for one entry."""
    os.makedirs(outdir, exist_ok=True)
    if fam.debug is not None:
        derive_config(outdir)
    fl = cflags(fam, outdir)
    write_entries(fam, os.path.join(outdir, 'entries.inc'), replay_entry=entry)
    cc = ['clang', '-O0', '-g', '-w', '-fsanitize=address,undefined', '-fno-sanitize-recover=undefined',
          '-fno-omit-frame-pointer', '-ftrivial-auto-var-init=pattern', '-DREPLAY']
    srcs = [os.path.join(REPO, 'src', u) for u in fam.units]
    srcs += [os.path.join(VERIF, 'stubs', s) for s in fam.stubs] + [os.path.join(VERIF, 'harness', 'verif_rt.c')]
    objs = []
    for i, s in enumerate(srcs):
        ob = os.path.join(outdir, 'n%d.o' % i)
        rc, out = sh(cc + ['-c', '-o', ob, s] + fl)
        if rc != 0:
            return None, 'native compile failed for %s: %s' % (s, out[-1500:])
        objs.append(ob)
    ob = os.path.join(outdir, 'nh.o')
    rc, out = sh(cc + ['-c', '-o', ob, fam.harness if os.path.isabs(fam.harness) else os.path.join(VERIF, 'harness', fam.harness), '-DVERIF_ENTRIES="entries.inc"', '-I' + outdir] + fl)
    if rc != 0:
        return None, 'native compile failed for harness: %s' % out[-1500:]
    objs.append(ob)
    exe = os.path.join(outdir, 'replay.exe')
    out = ''
    for libs in (['-lm', '-lpcre', '-lX11', '-ldl', '-lpthread'], ['-lm', '-lX11', '-ldl', '-lpthread'], ['-lm', '-ldl', '-lpthread'],
                 ['-lm', '-ldl', '-lpthread', '-Wl,--unresolved-symbols=ignore-all']):
        rc, o2 = sh(cc + ['-o', exe] + objs + libs)
        if rc == 0:
            break
        out += o2
    if rc != 0:
        return None, 'native link failed: %s' % out[-1500:]
    return exe, ''


def native_replay(fam, entry, inputs, workdir, leak=False):
    outdir = tempfile.mkdtemp(prefix='rp_', dir=workdir)
    exe, err = native_build(fam, entry, outdir)
    if exe is None:
        return {'built': False, 'error': err, 'reproduced': False}
    inp = os.path.join(outdir, 'inputs.txt')
    open(inp, 'w').write(' '.join(str(v) for v in inputs) + '\n')
    runs = []
    reproduced = False
    for fill in ('170', '0', '255'):
        env = dict(os.environ)
        env['ASAN_OPTIONS'] = 'detect_leaks=%d:malloc_fill_byte=%s:max_malloc_fill_size=1048576:abort_on_error=0:exitcode=23:allocator_may_return_null=1' % (1 if leak else 0, fill)
        env['UBSAN_OPTIONS'] = 'print_stacktrace=0:halt_on_error=1:exitcode=24'
        try:
            p = subprocess.run(['bash', '-c', 'ulimit -s 8192; exec "$@"', 'bash', exe, inp], stdout=subprocess.PIPE, stderr=subprocess.PIPE, text=True, timeout=10, env=env)
            rc, tail = p.returncode, (p.stderr or '')[-1200:]
        except subprocess.TimeoutExpired:
            rc, tail = 'timeout', 'native run did not terminate within 10 s'
        ok = rc not in (0, 3, 77)
        runs.append({'malloc_fill': fill, 'exit': rc, 'stderr_tail': tail})
        if ok:
            reproduced = True
            break
    shutil.rmtree(outdir, ignore_errors=True)
    return {'built': True, 'reproduced': reproduced, 'runs': runs}


def safe_name(oid):
    return re.sub(r'[^A-Za-z0-9_.=,+-]', '_', oid.replace('/', '__'))


def write_replay_file(pid, o, native):
    d = os.path.join(VERIF, 'replay', pid)
    os.makedirs(d, exist_ok=True)
    path = os.path.join(d, safe_name(o.oid) + '.json')
    json.dump({'property': pid, 'obligation': o.oid, 'family': o.family.name, 'harness': o.family.harness,
               'body': o.body, 'args': list(o.args), 'failing_labels': o.labels,
               'failing_checks': getattr(o, 'fail_detail', []), 'inputs': o.inputs,
               'cbmc_cmd': getattr(o, 'cmd', ''), 'native_replay': native,
               'how': 'python3 vp/run.py --replay ' + path}, open(path, 'w'), indent=1)
    return path


# ---------------------------------------------------------------- main

def load_prop(pid):
    return importlib.import_module('props.' + pid.lower())


def do_replay(path):
    r = json.load(open(path))
    mod = load_prop(r['property'])
    for tier in ('quick', 'thorough'):
        for fam in mod.families(tier):
            if fam.name != r['family']:
                continue
            for i, o in enumerate(fam.obls):
                o.entry = 'e_%d' % i
                if o.oid == r['obligation']:
                    wd = tempfile.mkdtemp(prefix='verif_replay_')
                    try:
                        nat = native_replay(fam, o.entry, r['inputs'], wd, leak=fam.leak)
                    finally:
                        shutil.rmtree(wd, ignore_errors=True)
                    print(json.dumps(nat, indent=1))
                    return 1 if nat.get('reproduced') else 0
    print('obligation not found: ' + r['obligation'])
    return 2


def main():
    ap = argparse.ArgumentParser()
    ap.add_argument('pid', nargs='?')
    ap.add_argument('--tier', default=os.environ.get('VERIF_TIER', 'quick'))
    ap.add_argument('--only', default=None)
    ap.add_argument('--jobs', type=int, default=int(os.environ.get('VERIF_JOBS', '16')))
    ap.add_argument('--replay', default=None)
    ap.add_argument('--list', action='store_true')
    ap.add_argument('--no-evidence', action='store_true')
    ap.add_argument('--max-replays', type=int, default=6)
    a = ap.parse_args()
    if a.replay:
        sys.exit(do_replay(a.replay))
    pid = a.pid.upper()
    tier = a.tier if a.tier in ('quick', 'thorough') else 'quick'
    seed = int(os.environ.get('VERIF_SEED', '0') or 0)
    t_start = time.time()
    mod = load_prop(pid)
    fams = mod.families(tier)
    if a.only:
        for f in fams:
            f.obls = [o for o in f.obls if (a.only in o.oid or re.search(a.only, o.oid))]
        fams = [f for f in fams if f.obls]
    if a.list:
        for f in fams:
            for o in f.obls:
                print(o.oid)
        return 0
    import signal, atexit
    signal.signal(signal.SIGTERM, kill_all_children)
    signal.signal(signal.SIGINT, kill_all_children)
    atexit.register(kill_all_children)
    known = load_known()
    workdir = tempfile.mkdtemp(prefix='verif_%s_' % pid)
    rc = 0
    try:
        # build all families in parallel
        def b(f):
            try:
                build_family(f, workdir)
            except Exception as e:
                f.build_error = str(e)
            return f
        with ThreadPoolExecutor(max_workers=min(a.jobs, 8)) as ex:
            list(ex.map(b, fams))
        for f in fams:
            if f.build_error:
                log('BUILD-ERROR family=%s\n%s' % (f.name, f.build_error))
        obls = [o for f in fams if not f.build_error for o in f.obls]
        log('%s %s: %d families, %d obligations' % (pid, tier, len(fams), len(obls)))
        done = 0
        with ThreadPoolExecutor(max_workers=a.jobs) as ex:
            futs = [ex.submit(decide, o, tier) for o in obls]
            for fu in as_completed(futs):
                o = fu.result()
                done += 1
                if o.status != 'discharged':
                    log('[%d/%d] %s %s %.1fs %s %s' % (done, len(obls), o.status, o.oid, o.wall, ','.join(o.labels[:6]), o.detail[:200]))
                elif os.environ.get('VERIF_VERBOSE'):
                    log('[%d/%d] discharged %s %.1fs' % (done, len(obls), o.oid, o.wall))
                elif done % 50 == 0:
                    log('[%d/%d] ...' % (done, len(obls)))
        # classify failures
        violations, knowns, replays, unconfirmed, pending = [], [], 0, [], []
        for o in obls:
            if o.status != 'failed':
                continue
            k = match_known(o, pid, known)
            if k is not None:
                o.status = 'known'
                o.known = k
                knowns.append(o)
                continue
            native = {'built': False, 'reproduced': None, 'note': 'native replay skipped (replay budget of this run used up)'}
            if replays < a.max_replays:
                replays += 1
                native = native_replay(o.family, o.entry, o.inputs, workdir, leak=o.family.leak)
            o.native = native
            o.replay_path = write_replay_file(pid, o, native)
            if native.get('reproduced') is False:
                # the solver's counterexample does not reproduce on the natively compiled code: either the
                # bound was too small (unwinding assertion), or it rests on CBMC's model rather than on
                # the code (symbolic-size memmove, pure pointer-arithmetic UB).  Not reported as a violation.
                o.status = 'inconclusive'
                o.detail = 'counterexample not reproduced natively (labels: %s); kept in %s' % (','.join(o.labels[:6]), o.replay_path)
                unconfirmed.append(o)
                continue
            if native.get('reproduced') is None:
                pending.append(o)
                continue
            o.status = 'violated'
            violations.append(o)
        for o in pending:
            # beyond the replay budget: counted as violations only if a replayed counterexample of this run reproduced
            if violations:
                o.status = 'violated'
                violations.append(o)
            else:
                o.status = 'inconclusive'
                o.detail = 'counterexample not replayed (budget) and none of the replayed ones reproduced'
        if False:
            pass
        printed = set()
        for o in knowns:
            key = (o.known.get('id') or o.known['what'])
            if key in printed:
                continue
            printed.add(key)
            print('KNOWN-FINDING: property=%s %s' % (pid, o.known['what']))
        for o in violations:
            print('VIOLATION property=%s replay=%s' % (pid, o.replay_path))
            print('  obligation=%s labels=%s native_reproduced=%s' % (o.oid, ','.join(o.labels[:8]), o.native.get('reproduced')))
        vac = [o for o in obls if o.status == 'vacuous']
        for o in vac:
            print('MACHINERY-FAULT vacuous obligation %s: %s' % (o.oid, o.detail))
        inc = [o for o in obls if o.status == 'inconclusive']
        dis = [o for o in obls if o.status == 'discharged']
        build_fail = [f for f in fams if f.build_error]
        if violations:
            rc = 1
        elif vac or build_fail or (obls and not dis and not knowns):
            rc = 2
        elif not obls:
            rc = 2
        wall = time.time() - t_start
        print('%s %s: obligations=%d discharged=%d known=%d violated=%d inconclusive=%d vacuous=%d wall=%.0fs'
              % (pid, tier, len(obls), len(dis), len(knowns), len(violations), len(inc), len(vac), wall))
        if not a.no_evidence and not a.only:
            write_evidence(pid, tier, seed, mod, fams, obls, wall, len(violations))
    finally:
        shutil.rmtree(workdir, ignore_errors=True)
        for f in fams:
            if getattr(f, 'cleanup', None):
                try:
                    os.unlink(f.cleanup)
                except OSError:
                    pass
    return rc


def write_evidence(pid, tier, seed, mod, fams, obls, wall, nviol):
    by = lambda s: [o for o in obls if o.status == s]
    dis, kn, vi, inc = by('discharged'), by('known'), by('violated'), by('inconclusive')
    decided = dis + kn + vi
    fns = sorted(set(f for o in obls for f in o.functions if not f.startswith(('e_', 'h_', 'verif_', 'V_', '__CPROVER'))))
    samples = []
    for o in (dis[:2] + dis[len(dis) // 2:len(dis) // 2 + 1] + kn[:1] + inc[:1]):
        samples.append({'obligation': o.oid, 'harness_entry': '%s(%s)' % (o.body, ', '.join(map(str, o.args))),
                        'status': o.status, 'backend': o.backend, 'wall_s': round(o.wall, 2), 'peak_rss_kb': o.rss_kb,
                        'properties_checked': getattr(o, 'nprops', 0), 'cbmc': getattr(o, 'cmd', ''),
                        'witness_inputs': getattr(o, 'witness_inputs', [])[:24]})
    backends = {}
    for o in decided:
        backends[o.backend] = backends.get(o.backend, 0) + 1
    ev = {
        'property_id': pid, 'tier': tier, 'seed': seed, 'level': 'model_checking',
        'coverage': {
            'evaluations': len(obls),
            'distinct_nontrivial': len(decided),
            'rule': 'one CBMC query per obligation = (harness entry, shape tuple); shape space enumerated completely, every other input symbolic '
                    'inside the query; an obligation counts as distinct and non-trivial when its in-query reachability witness (assert(0) at the end '
                    'of the harness) came back FAILURE and the solver returned a verdict for every generated property. ' + getattr(mod, 'RULE', ''),
            'samples': samples,
            'obligations': len(obls), 'discharged': len(dis), 'known_findings': len(kn), 'violated': len(vi),
            'inconclusive': len(inc),
            'inconclusive_list': [{'obligation': o.oid, 'why': o.detail[:160]} for o in inc[:40]],
            'known_list': sorted(set(o.known['what'] for o in kn)),
            'exhaustive': not getattr(mod, 'SAMPLED', {}).get(tier),
            'exhaustive_note': ('the shape space of this tier is SAMPLED: ' + getattr(mod, 'SAMPLED', {}).get(tier)) if getattr(mod, 'SAMPLED', {}).get(tier)
                               else 'exhaustive over the enumerated shape space only; symbolic (solver-decided) over all other inputs within the bounds',
            'functions_encoded': fns[:400],
            'bounds': getattr(mod, 'BOUNDS', {}).get(tier, getattr(mod, 'BOUNDS', {})),
            'families': [{'name': f.name, 'harness': f.harness, 'units': f.units, 'stubs': f.stubs, 'defines': f.defines,
                          'unwind': f.unwind, 'unwindset': f.unwindset, 'obligations': len(f.obls), 'note': f.note,
                          'build_error': (f.build_error or '')[:300]} for f in fams],
            'backends': backends,
            'solver_wall_s': round(sum(o.wall for o in obls), 1),
            'peak_rss_kb': max([o.rss_kb for o in obls] + [0]),
            'checker_cmd': 'cbmc <family>.gb --function <entry> --unwind N ' + ' '.join(BASE_FLAGS),
            'trusted_base': ['CBMC 6.11 C front end + memory model', 'cadical/kissat/z3', 'harness oracles and invariants (harness/*.c)',
                             'environment stubs (stubs/*.c)'] + list(getattr(mod, 'TRUSTED', [])),
        },
        'assumptions': list(getattr(mod, 'ASSUMPTIONS', [])) + [
            'allocation failure out of scope (--no-malloc-may-fail)',
            'bounded claim: nothing is asserted outside the shape ranges and unwinding bounds listed under coverage.bounds',
            'inconclusive obligations (time/memory cap, solver error) are not counted as discharged'],
        'wall_s': round(wall, 1),
        'violations': nviol,
    }
    os.makedirs(os.path.join(VERIF, 'evidence'), exist_ok=True)
    json.dump(ev, open(os.path.join(VERIF, 'evidence', pid + '.json'), 'w'), indent=1)


if __name__ == '__main__':
    try:
        rc_ = main()
    except SystemExit:
        raise
    except BaseException as exc:                # never let a crash of the machinery look like a verdict (exit 1)
        import traceback
        traceback.print_exc()
        print('MACHINERY-FAULT driver error: %r' % (exc,))
        rc_ = 2
    sys.exit(rc_)
