#!/bin/bash
# Runs the repository's own suite with the LIBAST_VERIF guard OFF and checks that
# every one of the 119 baseline tests reports "passed".  (The suite's last test,
# spif_module_load, fails in this sandbox before and after any change; it is not
# among the baseline tests, so make's own exit status is not used.)
REPO=${1:-${VERIF_REPO:-/repo}}
make -s -C "$REPO" >/dev/null 2>&1 || { echo "build failed"; exit 1; }
out=$(cd "$REPO/test" && make -s test 2>&1)
python3 - "$out" <<'PY'
import json, sys, re
out = sys.argv[1]
base = json.load(open('/root/.vp/BASELINE.json'))['stable_pass']
ok = 0
bad = []
for name in base:
    m = re.search(re.escape(name) + r'\.\.\.(\w+)', out)
    if m and m.group(1) == 'passed':
        ok += 1
    else:
        bad.append(name)
print('baseline tests passed: %d/%d' % (ok, len(base)))
for b in bad:
    print('NOT PASSED:', b)
sys.exit(0 if not bad else 1)
PY
