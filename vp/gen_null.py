#!/usr/bin/env python3
"""C16: NULL-argument contract.

  gen_null.py --freeze   scan the headers and sources of $VERIF_REPO and write spec/null_contract.json
                         (done once on the pinned tree; the file is committed and frozen)
  gen_null.py --emit F   regenerate the harness C file F from the frozen contract and the CURRENT headers

A guard dropped or reordered by a later change violates the frozen contract instead of shrinking it."""
import re, os, sys, json, glob
VERIF = os.path.dirname(os.path.dirname(os.path.abspath(__file__)))
REPO = os.environ.get('VERIF_REPO', '/repo')
HEADERS = ['str.h', 'ustr.h', 'mbuff.h', 'objpair.h', 'tok.h', 'url.h', 'regexp.h', 'socket.h', 'obj.h']
SKIP = set('spif_str_show spif_ustr_show spif_mbuff_show spif_tok_show spif_url_show spif_regexp_show spif_socket_show spif_objpair_show spif_obj_show '
           'spif_obj_show_null spif_socket_open spif_socket_accept spif_socket_check_io spif_socket_set_nbio spif_socket_clear_nbio spif_socket_recv spif_socket_send spif_socket_close '
           'spif_str_new_from_fp spif_str_new_from_fd spif_str_init_from_fp spif_str_init_from_fd spif_ustr_new_from_fp spif_ustr_new_from_fd spif_ustr_init_from_fp '
           'spif_ustr_init_from_fd spif_mbuff_new_from_fp spif_mbuff_new_from_fd spif_mbuff_init_from_fp spif_mbuff_init_from_fd spif_tok_new_from_fp spif_tok_new_from_fd '
           'spif_tok_init_from_fp spif_tok_init_from_fd spif_regexp_matches_str spif_regexp_matches_ptr spif_regexp_compile'.split())


def split_params(s):
    out, depth, cur = [], 0, ''
    for ch in s:
        if ch == ',' and depth == 0:
            out.append(cur.strip()); cur = ''
        else:
            depth += ch == '('
            depth -= ch == ')'
            cur += ch
    if cur.strip():
        out.append(cur.strip())
    return out


TYPEWORDS = set('char int long short unsigned signed double float void const struct'.split())


def norm_type(p):
    p = re.sub(r'\bregister\b', '', p).strip()
    m = re.match(r'^(.*?[\w\*])\s*\b(\w+)$', p)
    if m and m.group(1).strip() and m.group(2) not in TYPEWORDS and not m.group(2).endswith('_t') and re.search(r'\w', m.group(1)):
        base = m.group(1).strip()
        if base.split()[-1] in TYPEWORDS or base.endswith('_t') or base.endswith('*'):
            return base
    return p


def prototypes():
    protos = {}
    files = [os.path.join(REPO, 'include/libast', h) for h in HEADERS] + [os.path.join(REPO, 'include/libast.h')]
    for f in files:
        for line in open(f, errors='replace'):
            m = re.match(r'\s*extern\s+(.+?)\s*\b(spif_\w+|spiftool_\w+)\s*\((.*)\)\s*;', line)
            if not m:
                continue
            ret, name, params = m.group(1).strip(), m.group(2), m.group(3).strip()
            if params in ('void', ''):
                continue
            protos[name] = {'ret': ret, 'params': [norm_type(x) for x in split_params(params)], 'header': os.path.basename(f)}
    return protos


def definitions():
    """name -> (param names, leading guard statements)"""
    defs = {}
    for f in glob.glob(os.path.join(REPO, 'src/*.c')):
        txt = open(f, errors='replace').read()
        for m in re.finditer(r'^(spif_\w+|spiftool_\w+)\s*\(([^)]*)\)\s*\n\{\n(.*?)^\}', txt, re.S | re.M):
            name, params, body = m.group(1), m.group(2), m.group(3)
            pnames = []
            for p in split_params(params.replace('\n', ' ')):
                mm = re.search(r'(\w+)\s*$', p)
                pnames.append(mm.group(1) if mm else '')
            guards = []
            for line in body.split('\n'):
                l = line.strip()
                if not l or l.startswith('/*') or l.startswith('*') or l.startswith('USE_VAR') or l.startswith('D_'):
                    continue
                g = re.match(r'(ASSERT_RVAL|REQUIRE_RVAL)\s*\((.*),\s*(.+)\);$', l)
                if g:
                    cond, val = g.group(2), g.group(3).strip()
                    mm = re.match(r'^\(?\s*!\s*SPIF_\w+_ISNULL\((\w+)\)\s*\)?$', cond) or re.match(r'^\(?\s*\(?(\w+)\s*!=\s*(?:\([\w\s\*]+\)\s*)?NULL\s*\)?\s*\)?$', cond) \
                        or re.match(r'^\(?\s*!\s*SPIF_PTR_ISNULL\((\w+)\)\s*\)?$', cond)
                    if mm and mm.group(1) in pnames:
                        guards.append({'param': pnames.index(mm.group(1)), 'kind': g.group(1), 'value': val})
                        continue
                    break
                g = re.match(r'SPIF_OBJ_COMP_CHECK_NULL\((\w+),\s*(\w+)\);$', l)
                if g and g.group(1) in pnames and g.group(2) in pnames:
                    guards.append({'param': pnames.index(g.group(1)), 'kind': 'COMP', 'value': 'SPIF_CMP_LESS'})
                    guards.append({'param': pnames.index(g.group(2)), 'kind': 'COMP', 'value': 'SPIF_CMP_GREATER'})
                    continue
                if re.match(r'^[\w\s\*,]+(=[^;]*)?;$', l) and not re.match(r'^(return|if|for|while|switch)\b', l):
                    continue                     # a declaration
                break
            defs[name] = (pnames, guards)
    return defs


def freeze():
    protos, defs = prototypes(), definitions()
    entries = []
    for name in sorted(protos):
        if name in SKIP or name not in defs:
            continue
        pnames, guards = defs[name]
        if not guards or len(pnames) != len(protos[name]['params']):
            continue
        entries.append({'func': name, 'ret': protos[name]['ret'], 'params': protos[name]['params'], 'header': protos[name]['header'], 'guards': guards})
    json.dump({'generated_from': 'pinned tree + fix commits of this task; frozen', 'entries': entries}, open(os.path.join(VERIF, 'spec', 'null_contract.json'), 'w'), indent=1)
    print('contract: %d functions, %d guarded parameters' % (len(entries), sum(len(e['guards']) for e in entries)))


FACTORY = [
    (r'^spif_str_t$', 'SPIF_STR(mk_str())'), (r'^spif_ustr_t$', 'mk_ustr()'), (r'^spif_mbuff_t$', 'mk_mbuff()'), (r'^spif_tok_t$', 'mk_tok()'),
    (r'^spif_url_t$', 'mk_url()'), (r'^spif_regexp_t$', 'mk_regexp()'), (r'^spif_objpair_t$', 'mk_pair()'), (r'^spif_socket_t$', 'mk_socket()'),
    (r'^spif_obj_t$', 'SPIF_OBJ(mk_str())'), (r'^spif_class_t$', 'SPIF_CLASS_VAR(str)'), (r'^spif_list_t$', 'SPIF_LIST_NEW(array)'),
    (r'^(const\s+)?spif_charptr_t$', 'SPIF_CHARPTR(verif_text)'), (r'^(const\s+)?char\s*\*$', '(char *) verif_text'), (r'^spif_byteptr_t$', '(spif_byteptr_t) verif_text'),
    (r'^spif_charptr_t\s*\*$', 'verif_list'),
    (r'^FILE\s*\*$', '(FILE *) 0'), (r'^(spif_stridx_t|spif_ustridx_t|spif_memidx_t|spif_int32_t|spif_uint32_t|int|long|size_t|unsigned long|unsigned short|spif_char_t|spif_uint8_t|spif_listidx_t)$', '1'),
    (r'^\.\.\.$', None),
]


# the same arguments in their EMPTY state (a refused call's failure value must not depend on what the valid arguments hold)
EMPTY = {'SPIF_STR(mk_str())': 'SPIF_STR(mk_str_empty())', 'mk_ustr()': 'mk_ustr_empty()', 'mk_mbuff()': 'mk_mbuff_empty()',
         'SPIF_OBJ(mk_str())': 'SPIF_OBJ(mk_str_empty())', 'SPIF_CHARPTR(verif_text)': 'SPIF_CHARPTR(verif_empty)', '(char *) verif_text': '(char *) verif_empty',
         '(spif_byteptr_t) verif_text': '(spif_byteptr_t) verif_empty', '1': '0'}


def factory(t, empty=False):
    t = re.sub(r'\bregister\b', '', t).strip()
    for pat, expr in FACTORY:
        if re.match(pat, t):
            return EMPTY.get(expr, expr) if empty else expr
    return 'UNSUPPORTED'


def emit(path):
    c = json.load(open(os.path.join(VERIF, 'spec', 'null_contract.json')))
    protos = prototypes()
    out = ['/* generated by vp/gen_null.py from spec/null_contract.json and the current headers */', '#include "c16_null.h"', '']
    entries = []
    for e in c['entries']:
        cur = protos.get(e['func'])
        if cur is None or len(cur['params']) != len(e['params']):
            continue                               # prototype gone or changed shape: reported as uncontracted by the spec
        variants = []
        for gi, g in enumerate(e['guards']):
            if re.search(r'\bself\b', g['value']):
                continue                           # failure value is itself a call on the object: not expressible here
            variants.append(([g['param']], g, '', False))
            variants.append(([g['param']], g, 'e', True))
        # every guarded parameter NULL at once: comparison methods answer EQUAL for two NULLs (the NULL ordering);
        # other functions are checked when all their guards name the same failure value
        gs = [g for g in e['guards'] if not re.search(r'\bself\b', g['value'])]
        if len(gs) >= 2:
            if all(g['kind'] == 'COMP' for g in gs) and len(gs) == 2:
                variants.append(([g['param'] for g in gs], dict(gs[0], value='SPIF_CMP_EQUAL'), 'all', False))
            elif len(set(g['value'] for g in gs)) == 1:
                variants.append(([g['param'] for g in gs], gs[0], 'all', False))
        for nulls, g, tag, empty in variants:
            args, ok = [], True
            for i, t in enumerate(cur['params']):
                if i in nulls:
                    args.append('(%s) 0' % re.sub(r'\bregister\b|\bconst\b', '', t).strip() if t != '...' else '0')
                    continue
                f = factory(t, empty)
                if f == 'UNSUPPORTED':
                    ok = False
                    break
                if f is not None:
                    args.append(f)
            if not ok:
                continue
            if empty and args == [a for a in (('(%s) 0' % re.sub(r'\bregister\b|\bconst\b', '', t).strip()) if i in nulls else factory(t) for i, t in enumerate(cur['params']) if t != '...' or i in nulls) if a is not None]:
                continue                           # no argument has an empty state: same call as the plain variant
            fn = 'n_%s_%s%s' % (e['func'], '_'.join(str(n) for n in nulls), tag)
            ret = cur['ret']
            isvoid = ret == 'void'
            val = g['value']
            isnan = 'NAN' in val
            what = 'NULL at %s%s' % (','.join(str(n) for n in nulls), ', other arguments empty' if empty else '')
            body = ['static void', '%s(void)' % fn, '{']
            body.append('    null_begin();')
            if isvoid:
                body.append('    %s(%s);' % (e['func'], ', '.join(args)))
            elif isnan:
                body.append('    { double r_ = %s(%s); NULL_RESULT("%s(%s) returns its failure value", r_ != r_); }' % (e['func'], ', '.join(args), e['func'], what))
            else:
                body.append('    NULL_RESULT("%s(%s) returns its failure value", %s(%s) == (%s));' % (e['func'], what, e['func'], ', '.join(args), val))
            body.append('    null_end();')
            body.append('}')
            out += body + ['']
            entries.append((fn, e['func'], '+'.join(str(n) for n in nulls) + ('/' + tag if tag else ''), g['kind']))
    out.append('#include VERIF_ENTRIES')
    open(path, 'w').write('\n'.join(out) + '\n')
    return entries


if __name__ == '__main__':
    if '--freeze' in sys.argv:
        freeze()
    elif '--emit' in sys.argv:
        es = emit(sys.argv[sys.argv.index('--emit') + 1])
        print('%d harness entries' % len(es))
