#!/usr/bin/env python3
"""Regenerates the findings table of DESIGN.md (between the FIXED-TABLE markers) from known_findings.json."""
import json, os, re
V = os.path.dirname(os.path.dirname(os.path.abspath(__file__)))
d = json.load(open(os.path.join(V, 'known_findings.json')))
rows = ['| prop | commit | what failed |', '|---|---|---|']
for e in d['fixed']:
    what = e['line'].split(e['commit'], 1)[1].strip().replace('|', '\\|')
    rows.append('| %s | `%s` | %s |' % (e['property'], e['commit'], what))
p = os.path.join(V, 'DESIGN.md')
s = open(p).read()
a, b = '<!-- FIXED-TABLE-BEGIN -->', '<!-- FIXED-TABLE-END -->'
s = s[:s.index(a) + len(a)] + '\n' + '\n'.join(rows) + '\n' + s[s.index(b):]
s = re.sub(r'(## 7\. Findings on the pinned tree: )\d+', lambda m: m.group(1) + str(len(d['fixed'])), s)
open(p, 'w').write(s)
print(len(d['fixed']), 'fixed entries')
