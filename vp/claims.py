# Table of claimed properties (exec'd by gen_manifest.py)
claim('C18', 'c18_hashes.c',
      'CBMC bounded equivalence check: real hash functions vs reference definitions, symbolic key bytes and seed, SAT (kissat/cadical)',
      'For every key length in the stated range, every placement offset 0..3 and every 32-bit seed, the solver shows each built-in hash equals an '
      'independently structured reference definition and reads only the key bytes (key in an exact-size heap object). All 2^(8n+32) inputs per '
      'length are covered by one query; lengths beyond the bound are covered only for the Jenkins mixing round (separate obligation).',
      'DESIGN.md section 4, C18')
