# Table of claimed properties (exec'd by gen_manifest.py)
claim('C18', 'c18_hashes.c',
      'CBMC bounded equivalence check: real hash functions vs reference definitions, symbolic key bytes and seed, SAT (kissat/cadical)',
      'For every key length in the stated range, every placement offset 0..3 and every 32-bit seed, the solver shows each built-in hash equals an '
      'independently structured reference definition and reads only the key bytes (key in an exact-size heap object). All 2^(8n+32) inputs per '
      'length are covered by one query; lengths beyond the bound are covered only for the Jenkins mixing round (separate obligation).',
      'DESIGN.md section 4, C18')
claim('C13', 'c13_helpers.c',
      'CBMC bounded check of safe_strncpy/strncat/substr and the in-place helpers against reference transformations; symbolic bytes, exact-size heap objects',
      'For every size/length shape in range and every byte content (symbolic), the solver shows the helpers write only inside the exact-size '
      'destination, terminate it, store the longest fitting prefix / the reference transformation, and return the documented value; under- and '
      'over-runs by one byte are bounds failures because every buffer is allocated at exactly its nominal size.',
      'DESIGN.md section 4, C13')
claim('C17', 'c17_version.c',
      'CBMC bounded check of spiftool_version_compare: determinism (two calls, nondeterministic stack), antisymmetry, reflexivity, buffer safety on long runs, ordering templates',
      'For all string pairs up to the stated length over a nine-letter alphabet (symbolic bytes) the solver shows compare(a,b) is memory safe, '
      'gives the same answer twice although its scratch buffers start nondeterministic, and equals -compare(b,a); runs of 127..129 characters '
      'are checked against the 128-byte buffers; ordering facts are checked on generated well-formed versions with symbolic digits.',
      'DESIGN.md section 4, C17')
claim('C12', 'c12_split.c',
      'CBMC differential check: spiftool_split / num_words / get_word / get_pword / join vs a reference tokenizer, symbolic input bytes in exact-size objects',
      'For every input up to the stated length over {a,b,space,comma,",\',\\} (symbolic) and both delimiter sets, the token list equals the '
      'reference grammar\'s, the word utilities agree with the reference word scanner for every index, and no byte past the terminator is read.',
      'DESIGN.md section 4, C12')
claim('C01', 'c01_str.c',
      'CBMC inductive-step check: every str/ustr operation from an arbitrary invariant-satisfying state vs an ideal character-sequence model; constructors as base cases; read/fgets stubs with fault schedules',
      'For every operation of both classes, from every state shape (text length, capacity slack, and the (NULL,0,0) empty state) with symbolic '
      'characters, the solver shows the result equals the ideal sequence, the (text,len,size) invariant is re-established, allocation >= size, '
      'and no access leaves the exact-size buffers; any history whose intermediate texts stay within the length bound is covered by induction. '
      'Stream/descriptor constructors run with the 4096-byte chunk scaled to 4 under complete/short/EINTR read schedules.',
      'DESIGN.md section 4, C01')
claim('C07', 'c07_mbuff.c',
      'CBMC inductive-step check: every mbuff operation from an arbitrary valid state vs an ideal byte-sequence model (all 256 byte values); file constructors over read/fread/lseek stubs (seekable or not, short reads)',
      'For every mbuff operation, from every state shape (length, capacity slack, empty state) with symbolic bytes incl. NUL, the solver shows '
      'bytes and length equal the ideal sequence, capacity >= length, allocation >= capacity and no access outside the exact-size buffers; '
      'index/rindex/find report the length when absent; cmp is lexicographic with the shorter prefix first.',
      'DESIGN.md section 4, C07')
claim('C02', 'c02_lists.c',
      'CBMC inductive-step check: each list operation of array / linked_list / dlinked_list from an arbitrary valid state vs one ideal-sequence model; representation invariant + read-back through get(i) and a fresh iterator',
      'For each of the three classes and every list operation, from every state shape (length, placeholder pattern) with symbolic element values, '
      'the solver shows the result and the resulting contents equal the ideal sequence (NULL placeholders where insert_at grew it), the class '
      'invariant (chain length, back links, tail) holds afterwards, get(i) agrees for i in [-n,n], an iterator yields exactly count elements in '
      'order, and no access leaves the container. All three classes are compared with the same oracle, hence interchangeable.',
      'DESIGN.md section 4, C02')
claim('C04', 'c04_vectors.c',
      'CBMC inductive-step check: vector insert/remove/find/contains/iteration/to_array of the three classes from an arbitrary sorted state vs a sorted-multiset oracle',
      'For each class and every vector operation, from every sorted state (symbolic values with a symbolic probe covering below-min, above-max, gaps and duplicates; '
      'enumerated value patterns where the array implementation turns positions into block-move sizes) the solver shows the contents are exactly the '
      'inserted-and-not-removed objects, in ascending order, with a valid representation, and find/contains/remove answer as the multiset would.',
      'DESIGN.md section 4, C04')
claim('C03', 'c03_maps.c',
      'CBMC inductive-step check: map set/get/remove/has_key/has_value/count/get_keys/get_values/get_pairs/iteration of the three classes from an arbitrary valid state vs an ideal dictionary; own-copy and use-after-removal checks',
      'For each class and every map operation, from every state with strictly ascending keys (symbolic keys/values/probes; enumerated key subsets for the array block moves) '
      'the solver shows results equal an ideal dictionary, set reports replacement, the map keeps its own copies (the key and value objects of the caller are deleted before the read-back), '
      'a removed pair is handed back once and unreachable afterwards, outputs are in ascending key order, and the representation invariant (incl. back links and tail) holds after every removal.',
      'DESIGN.md section 4, C03')
claim('C20', 'c20_debug.c',
      'CBMC check of the debug/assert macro ladders: one build per compile-time DEBUG value, runtime level (all 2^32 values), silent flag and asserted condition symbolic; real msgs.c/debug.c over counting fprintf/vfprintf/exit stubs',
      'For each of ten compile-time DEBUG values and each macro of the family the solver shows, for every runtime level and silent setting: D_*/DPRINTFn print and evaluate '
      'their arguments exactly when compiled in and the level is reached; silenced message functions print nothing and return; a failed ASSERT warns and returns the stated value at '
      'level 0 and ends the process (only) at level >= 1; a failed REQUIRE returns the value and logs only at level >= 1; with DEBUG 0 ASSERT vanishes and REQUIRE is the bare return.',
      'DESIGN.md section 4, C20')
claim('C15', 'c15_mem.c',
      'CBMC inductive-step check of the debug memory tracker (src/mem.c built with -DDEBUG=5): each tracked operation from an arbitrary valid table vs an oracle table; macro equivalence against the DEBUG<5 macro text; library balance scenarios',
      'From every table of 0..3 records (symbolic sizes, lines, file names) and for every runtime level on either side of the memory-debugging threshold, the solver shows '
      'malloc/calloc/strdup/realloc/free leave exactly one record per live block with its current address, last size, 20-character file name and line; realloc(NULL) allocates, '
      'realloc(p,0) frees, unknown pointers leave the table unchanged; the MALLOC/REALLOC/FREE/CALLOC macros behave alike with tracking compiled in and out.',
      'DESIGN.md section 4, C15')
claim('C14', 'c14_url.c',
      'CBMC check of URL parse/unparse: enumerated component-presence shapes and byte-class shapes, name-service lookup outcomes and port symbolic (stubs), exact-size input objects',
      'For every valid presence pattern of the seven components (two length variants, delimiter-bearing characters inside password, path and query) parsing yields exactly the '
      'components, unparse rebuilds the canonical text and re-parsing gives the same components; the port is filled from the service database exactly when a scheme but no port was given '
      'and a usable service entry exists - for every outcome of every getprotobyname/getservbyname call (solver-decided). Every string up to the length bound over the byte classes '
      '{: / ? @ alnum other} parses and unparses without a memory fault whatever the lookups return.',
      'DESIGN.md section 4, C14')
claim('C05', 'c05_protocol.c',
      'CBMC check of the object protocol: dup independence (mutate/delete either side, re-read the other) from arbitrary states, comp order laws on symbolic triples, obj comp on symbolic addresses, type()',
      'For str, ustr and mbuff from every state shape, and for the list/vector/map flavour of all three container classes, objpair, tok, url and regexp, the solver shows dup '
      'returns a distinct object of the same class with equal value and own storage, and that mutating or deleting either object leaves the other valid and unchanged (freed-object '
      'dereferences are CBMC failures); comp is reflexive, antisymmetric and transitive with NULL first and equality only for equal values (symbolic bytes / element values / 63-bit addresses).',
      'DESIGN.md section 4, C05')
claim('C06', 'c06_ownership.c',
      'CBMC ownership check: per-class single-call scenarios from directly built valid states under --memory-leak-check, built-in double-free/freed-object checks and an element deletion counter; the C01/C07 step harnesses re-run under the leak check',
      'For each container flavour and every scenario (delete non-empty incl. placeholders, done()+reuse, removal with hand-back at every position, dup, to_array, iterator, key/value/pair lists, '
      'overwriting and adding map entries) and for new();del() of every class, substring, re-evaluation and setter scenarios, the solver shows that once the caller has deleted what it '
      'was handed no allocation is left, nothing is freed twice or used after free, a container never frees what it handed back, and a map neither frees nor keeps the key and value of the caller.',
      'DESIGN.md section 4, C06')
claim('C19', 'c19_socket.c',
      'CBMC check of socket send/recv retry logic and descriptor accounting over syscall stubs: per-call transfer schedules (complete/short/EINTR/EAGAIN) as shapes, payload bytes and every stub outcome symbolic',
      'For every payload up to the bound and every schedule of short, interrupted and would-block transfers on the first three calls, the solver shows recv returns exactly the bytes '
      'delivered and send (when it reports success) has handed every byte to the kernel exactly once and in order; for open, accept, close, dup, done, delete and hard write errors - with '
      'every outcome of socket/bind/listen/connect/accept/dup/close/fcntl chosen by the solver - no descriptor is left open once the socket objects are deleted and no object refers to a closed descriptor.',
      'DESIGN.md section 4, C19')
claim('C10', 'c10_expand.c',
      'CBMC differential check: spifconf_shell_expand vs a reference expander on every text up to the length bound (text as shape), environment, variable store and all uninitialised scratch memory symbolic',
      'For every string up to the length bound over a 13-letter alphabet of ordinary characters, quotes, backslash, tilde and the $-forms, and for every environment '
      '(HOME and each referenced name independently unset, empty or 1-2 arbitrary bytes), the solver shows the expanded text equals the reference expander result, is terminated '
      'within the buffer limit, and therefore depends on no unwritten stack or heap byte (scratch buffers start nondeterministic); the same texts in exact-size objects show no read '
      'past the terminator; %put/%get/%version skeletons and the variable store (one step from every sorted store) are checked against their oracles.',
      'DESIGN.md section 4, C10')
claim('C16', 'c16_null.h',
      'CBMC check generated from a frozen NULL-argument contract: each guarded pointer parameter of each exported entry point set to NULL, other arguments valid objects, runtime debug level symbolic, leak check on',
      'For each of the guarded parameters in spec/null_contract.json (regenerated against the current headers on every run) the solver shows: at debug level 0 the call returns its documented '
      'failure value without a memory fault and without leaving an allocation behind; at any level >= 1 it either does the same or ends through libast_fatal_error() with a diagnostic - '
      'never by dereferencing the NULL object. The level is one symbolic unsigned int per query.',
      'DESIGN.md section 4, C16')
claim('C09', 'c09_conf.c',
      'CBMC inductive-step check of the config parser context stack (depth symbolic 0..254 per capacity class) with logging handlers and symbolic handler states, plus whole short files through fopen/fgets/fclose stubs against an ideal reading',
      'From every depth of the context stack (one symbolic depth per capacity class the doubling rule produces, incl. each growth point) one line of each kind is shown to produce exactly the '
      'handler calls of the ideal reading - begin with the enclosing state, end whose result becomes the enclosing state, text to the innermost context with its state threaded - with the stack '
      'index inside its storage; every file of up to the line bound over {comment, begin known/unknown, end, text} delivers the ideal call sequence, closes its stream once and leaves the file stack at 0.',
      'DESIGN.md section 4, C09')
claim('C11', 'c09_conf.c',
      'CBMC check of the tables of the config subsystem, path lookup, temp-file protocol, adversarial lines and init/free lifecycle over file-system/process stubs; growth steps with symbolic index',
      'One registration from every (index, capacity) pair of the four growing tables (index symbolic) keeps the live index inside the table; 23 adversarial lines parse without a memory fault and '
      'without reaching system()/popen()/fork(); spifconf_find_file with PATH_MAX scaled to 24 stays inside its buffers for file/dir/path lengths around the limit whatever access()/stat() answer; '
      'spiftool_temp_file calls mkstemp under umask 077, restores the umask, sets mode 0600 and terminates the returned name; two init/use/free cycles touch no freed state.',
      'DESIGN.md section 4, C11')
claim('C08', 'c08_opts.c',
      'CBMC bounded differential check of spifopt_parse against an ideal reading of the command line: token sequences, table variant and pass settings as shapes; boolean masks, flag words and integer targets symbolic',
      'For every argument vector of up to the stated number of words over a 31-token alphabet (every spelling the property names, plus unknown options, missing values, a lone dash, '
      'quoted words in an argument list), three option tables (with/without short forms, different pre-parse sets) and the four pass/removal settings, the solver shows for all '
      '2^32 values of each boolean mask and all initial contents of the targets that every target ends with the value of the ideal reading and nothing else changes, options of the other '
      'pass are left alone, argv after removal is the program name plus the plain words in order, NULL-terminated, parsing terminates (unwinding assertion on the main loop) and no access '
      'leaves argv, the exact-size words, the table or the parser\'s own allocations.',
      'DESIGN.md section 4, C08')
