/* C05: object protocol - dup is an independent equal copy, comp is a consistent order, type() names the
 * class - for the container flavours, objpair, tok, url, regexp and the base obj comparison. */
#include "containers.h"

/* ------------------------------------------------------------------ containers */
static spif_obj_t
mk_any(int cls, int kind, int n, seq *s)
{
    spif_obj_t c = new_container(cls, kind);
    int i;

    s->n = n;
    for (i = 0; i < n; i++) {
        /* concrete ascending values keep vector/map invariants; identity and structure are what is checked */
        int v = 1 + 2 * i;

        s->v[i] = v;
        if (kind == 2) {
            spif_objpair_t p = spif_objpair_new();

            p->key = (spif_obj_t) vint_new_v(v);
            p->value = (spif_obj_t) vint_new_v((int) V_RANGE(0, 3));
            s->o[i] = (spif_obj_t) p;
        } else {
            s->o[i] = (spif_obj_t) vint_new_v(v);
        }
    }
    fill_container(cls, c, s);
    return c;
}

static int
elem_value(int kind, spif_obj_t e)
{
    return (kind == 2) ? VINT(SPIF_OBJPAIR(e)->key)->v : VINT(e)->v;
}

/* kind: 0 list, 1 vector, 2 map */
static void
h_dup_container(int cls, int kind, int n)
{
    seq s;
    spif_obj_t c = mk_any(cls, kind, n, &s), d, d2, got[MAXN + 2];
    int k, i;

    d = SPIF_OBJ_DUP(c);
    CHECK("dup returns a container", d != NULL);
    if (!d) {
        return;
    }
    CHECK("dup is a distinct object of the same class", d != c && SPIF_OBJ_CLASS(d) == SPIF_OBJ_CLASS(c));
    CHECK("type() names the object's class", SPIF_OBJ_TYPE(c) == SPIF_OBJ_CLASSNAME(c));
    k = rep_extract(cls, d, got);
    CHECK("copy holds as many elements", k == n);
    for (i = 0; i < k && i < n; i++) {
        CHECK("copy holds its own, equal elements", got[i] != NULL && got[i] != s.o[i] && elem_value(kind, got[i]) == s.v[i]);
    }
    /* mutate the copy, then delete it: the original must be untouched and valid */
    if (kind == 0) {
        SPIF_LIST_APPEND(SPIF_LIST(d), (spif_obj_t) vint_new_v(9));
    } else if (kind == 1) {
        SPIF_VECTOR_INSERT(SPIF_VECTOR(d), (spif_obj_t) vint_new_v(9));
    }
    /* (maps: a set() on the copy after the copying dispatches exceeds 6 GB; deletion independence is still checked) */
    check_rep(cls, c, &s);
    SPIF_OBJ_DEL(d);
    check_rep(cls, c, &s);
    for (i = 0; i < n; i++) {
        CHECK("original's elements still alive after the copy is deleted", elem_value(kind, s.o[i]) == s.v[i]);
    }
    /* delete the original: a copy made earlier stays valid */
    d2 = SPIF_OBJ_DUP(c);
    SPIF_OBJ_DEL(c);
    if (d2) {
        k = rep_extract(cls, d2, got);
        CHECK("copy survives deletion of the original", k == n);
        for (i = 0; i < k && i < n; i++) {
            CHECK("copy's elements still alive after the original is deleted", got[i] != NULL && elem_value(kind, got[i]) == s.v[i]);
        }
    }
    WITNESS();
}

/* comp on two list containers of the same class: terminates, reflexive, antisymmetric; for the array and
 * singly linked classes additionally element-wise order with the shorter prefix first */
static void
h_comp_container(int cls, int n1, int n2)
{
    seq a, b;
    spif_obj_t x = mk_list(cls, 0, n1, 0, &a), y = mk_list(cls, 0, n2, 0, &b);
    int xy = (int) SPIF_OBJ_COMP(x, y), yx = (int) SPIF_OBJ_COMP(y, x), i, want = 0;

    CHECK("comp is reflexive", (int) SPIF_OBJ_COMP(x, x) == 0);
    CHECK("comp is antisymmetric", xy == -yx);
    CHECK("comp against NULL: greater", (int) SPIF_OBJ_COMP(x, (spif_obj_t) NULL) == 1);
    if (cls != CLS_DLINKED) {
        for (i = 0; i < n1 && i < n2 && !want; i++) {
            want = (a.v[i] > b.v[i]) - (a.v[i] < b.v[i]);
        }
        if (!want) {
            want = (n1 > n2) - (n1 < n2);
        }
        CHECK("comp orders element-wise, a proper prefix first", xy == want);
    } else {
        CHECK("distinct containers are ordered", xy != 0);
    }
    WITNESS();
}

/* ------------------------------------------------------------------ base object comparison by address */
static void
h_comp_obj(void)
{
    spif_obj_t a = (spif_obj_t) (uintptr_t) V_RANGE(1, 0x7fffffffffffffffL);
    spif_obj_t b = (spif_obj_t) (uintptr_t) V_RANGE(1, 0x7fffffffffffffffL);
    spif_obj_t c = (spif_obj_t) (uintptr_t) V_RANGE(1, 0x7fffffffffffffffL);
    int ab = (int) spif_obj_comp(a, b), ba = (int) spif_obj_comp(b, a), bc = (int) spif_obj_comp(b, c), ac = (int) spif_obj_comp(a, c);

    CHECK("obj comp is reflexive", (int) spif_obj_comp(a, a) == 0);
    CHECK("obj comp is antisymmetric", ab == -ba);
    CHECK("obj comp: equal only for the same object", (ab == 0) == (a == b));
    CHECK("obj comp is transitive", !(ab <= 0 && bc <= 0) || ac <= 0);
    CHECK("NULL orders before every object", (int) spif_obj_comp((spif_obj_t) NULL, a) == -1 && (int) spif_obj_comp(a, (spif_obj_t) NULL) == 1);
    WITNESS();
}

/* ------------------------------------------------------------------ objpair */
static void
h_pair(void)
{
    int k1 = (int) V_RANGE(0, 3), k2 = (int) V_RANGE(0, 3), v1 = (int) V_RANGE(0, 3);
    spif_obj_t ko1 = (spif_obj_t) vint_new_v(k1), ko2 = (spif_obj_t) vint_new_v(k2), vo = (spif_obj_t) vint_new_v(v1);
    spif_objpair_t p = spif_objpair_new_from_both(ko1, vo), q = spif_objpair_new_from_both(ko2, vo), d;
    int pq, qp;

    CHECK("pairs created", p != NULL && q != NULL);
    CHECK("pair holds copies of key and value", p->key != ko1 && p->value != vo);
    pq = (int) spif_objpair_comp(p, SPIF_OBJ(q));
    qp = (int) spif_objpair_comp(q, SPIF_OBJ(p));
    CHECK("pair comp orders by key", pq == ((k1 > k2) - (k1 < k2)));
    CHECK("pair comp is antisymmetric", pq == -qp);
    CHECK("pair comp against a bare key orders by key", (int) spif_objpair_comp(p, ko2) == ((k1 > k2) - (k1 < k2)));
    CHECK("type() names the class", spif_objpair_type(p) == SPIF_OBJ_CLASSNAME(p));
    d = spif_objpair_dup(p);
    CHECK("dup: distinct pair with own key and value of equal value", d != NULL && d != p && d->key != p->key && d->value != p->value
          && VINT(d->key)->v == k1 && VINT(d->value)->v == v1);
    spif_objpair_del(d);
    CHECK("original intact after the copy is deleted", VINT(p->key)->v == k1 && VINT(p->value)->v == v1);
    d = spif_objpair_dup(p);
    spif_objpair_del(p);
    CHECK("copy intact after the original is deleted", d != NULL && VINT(d->key)->v == k1 && VINT(d->value)->v == v1);
    WITNESS();
}

/* ------------------------------------------------------------------ tok, url, regexp (concrete small texts) */
static void
h_tok(int evaluated)
{
    spif_tok_t t = spif_tok_new_from_ptr(SPIF_CHARPTR("a b")), d, u = spif_tok_new_from_ptr(SPIF_CHARPTR("a c"));

    CHECK("tok created", t != NULL && u != NULL);
    if (evaluated) {
        CHECK("eval succeeds", spif_tok_eval(t) == TRUE);
    }
    d = spif_tok_dup(t);
    CHECK("dup returns a distinct tok of the same class", d != NULL && d != t && SPIF_OBJ_CLASS(d) == SPIF_OBJ_CLASS(t));
    CHECK("type() names the class", spif_tok_type(t) == SPIF_OBJ_CLASSNAME(t));
    if (d) {
        CHECK("copy has its own source string of equal text", d->src != t->src && spif_str_cmp(d->src, t->src) == SPIF_CMP_EQUAL);
        if (evaluated) {
            CHECK("copy has its own token list", d->tokens != NULL && d->tokens != t->tokens && SPIF_LIST_COUNT(d->tokens) == 2);
        } else {
            CHECK("copy of an unevaluated tok has no token list", d->tokens == NULL);
        }
        CHECK("comp: copy equals original", (int) spif_tok_comp(d, t) == 0);
        CHECK("comp is antisymmetric", (int) spif_tok_comp(t, u) == -(int) spif_tok_comp(u, t) && (int) spif_tok_comp(t, u) != 0);
        spif_tok_del(d);
    }
    CHECK("original intact after the copy is deleted", spif_str_cmp_with_ptr(t->src, SPIF_CHARPTR("a b")) == SPIF_CMP_EQUAL);
    WITNESS();
    spif_tok_del(t);
    spif_tok_del(u);
}

static void
h_url(void)
{
    spif_url_t a = spif_url_new_from_ptr(SPIF_CHARPTR("//h:1/p")), b = spif_url_new_from_ptr(SPIF_CHARPTR("//h:2/p")), d;

    CHECK("url created", a != NULL && b != NULL);
    d = spif_url_dup(a);
    CHECK("dup returns a distinct url of the same class", d != NULL && d != a && SPIF_OBJ_CLASS(d) == SPIF_OBJ_CLASS(a));
    CHECK("type() names the class", spif_url_type(a) == SPIF_OBJ_CLASSNAME(a));
    if (d) {
        CHECK("copy has its own components of equal text", spif_url_get_host(d) != spif_url_get_host(a)
              && spif_str_cmp(spif_url_get_host(d), spif_url_get_host(a)) == SPIF_CMP_EQUAL
              && spif_str_cmp(spif_url_get_port(d), spif_url_get_port(a)) == SPIF_CMP_EQUAL);
        CHECK("comp: copy equals original", (int) spif_url_comp(d, a) == 0);
        spif_url_del(d);
    }
    CHECK("comp is antisymmetric and orders by text", (int) spif_url_comp(a, b) == -1 && (int) spif_url_comp(b, a) == 1);
    CHECK("original intact after the copy is deleted", spif_str_cmp_with_ptr(spif_url_get_host(a), SPIF_CHARPTR("h")) == SPIF_CMP_EQUAL);
    WITNESS();
    spif_url_del(a);
    spif_url_del(b);
}

static void
h_regexp(int withflags)
{
    spif_regexp_t a = spif_regexp_new_from_ptr(SPIF_CHARPTR("ab")), b = spif_regexp_new_from_ptr(SPIF_CHARPTR("ac")), d;

    CHECK("regexp created", a != NULL && b != NULL);
    if (withflags) {
        (void) spif_regexp_set_flags(a, SPIF_CHARPTR("im"));      /* non-default flags; compiles */
    } else {
        (void) spif_regexp_compile(a);
    }
    d = spif_regexp_dup(a);
    CHECK("dup returns a distinct regexp of the same class", d != NULL && d != a && SPIF_OBJ_CLASS(d) == SPIF_OBJ_CLASS(a));
    CHECK("type() names the class", spif_regexp_type(a) == SPIF_OBJ_CLASSNAME(a));
    if (d) {
        CHECK("copy has its own compiled data", d->data == NULL || d->data != a->data);
        CHECK("copy carries the original's flags", d->flags == a->flags);
        if (d->data != NULL) {
            /* what the copy will match with is what the ORIGINAL's flags and text compile to */
            CHECK("the copy's compiled pattern was compiled with the original's flags and text", ((int *) d->data)[0] == (int) a->flags && ((int *) d->data)[1] == 'a');
        }
        CHECK("comp: copy equals original", (int) spif_regexp_comp(d, a) == 0);
        spif_regexp_del(d);
    }
    CHECK("comp is antisymmetric and orders by text", (int) spif_regexp_comp(a, b) == -1 && (int) spif_regexp_comp(b, a) == 1);
    CHECK("original intact after the copy is deleted", spif_str_cmp_with_ptr(SPIF_STR(a), SPIF_CHARPTR("ab")) == SPIF_CMP_EQUAL);
    WITNESS();
    spif_regexp_del(a);
    spif_regexp_del(b);
}

#include VERIF_ENTRIES
