/* C12 (part 1): spiftool_split / join / num_words / get_word / get_pword vs. a reference
 * implementation of the quoting and word grammars; inputs live in exact-size heap objects
 * so a read past the terminator is a bounds failure. */
#ifdef HAVE_CONFIG_H
# include <config.h>
#endif
#include <libast_internal.h>
#include "common.h"

#define MAXL 8
#define NALPHA 7
static const char alphabet[NALPHA + 1] = "ab ,\"'\\";

static int
ref_isspace(unsigned char c)
{
    return c == ' ' || (c >= '\t' && c <= '\r');
}

static int
ref_isdelim(unsigned char c, int comma)
{
    return comma ? (c == ',') : ref_isspace(c);
}

typedef struct {
    int n;
    int len[MAXL + 1];
    unsigned char t[MAXL + 1][MAXL + 1];
} toklist;

/* the quoting grammar of the property statement */
static void
ref_split(const unsigned char *s, int comma, toklist *out)
{
    int i = 0, quote;

    out->n = 0;
    while (s[i] && ref_isdelim(s[i], comma)) {
        i++;
    }
    while (s[i]) {
        int k = 0;

        quote = 0;
        while (s[i] && (quote || !ref_isdelim(s[i], comma))) {
            unsigned char c = s[i];

            if (c == '"' || c == '\'') {
                if (!quote) {
                    quote = c;              /* opens a group, removed */
                } else if (quote == c) {
                    quote = 0;              /* closes the group, removed */
                } else {
                    out->t[out->n][k++] = c;   /* the other quote character inside a group is ordinary */
                }
                i++;
            } else if (c == '\\' && s[i + 1] && (ref_isdelim(s[i + 1], comma) || (quote && s[i + 1] == quote))) {
                out->t[out->n][k++] = s[i + 1];   /* escaped delimiter / closing quote is literal */
                i += 2;
            } else {
                out->t[out->n][k++] = c;
                i++;
            }
        }
        out->t[out->n][k] = 0;
        out->len[out->n] = k;
        out->n++;
        while (s[i] && ref_isdelim(s[i], comma)) {
            i++;
        }
    }
}

static unsigned char *
sym_input(int len, unsigned char *copy)
{
    int i;

    for (i = 0; i < len; i++) {
        copy[i] = V_ALPHA(alphabet, NALPHA);
    }
    copy[len] = 0;
    return verif_tight_text(copy, len);
}

static void
h_split(int len, int comma)
{
    unsigned char copy[MAXL + 1];
    unsigned char *s = sym_input(len, copy);
    toklist want;
    spif_charptr_t *got;
    int i, j;

    ref_split(copy, comma, &want);
    got = spiftool_split(comma ? SPIF_CHARPTR(",") : (spif_charptr_t) NULL, (spif_charptr_t) s);
    if (want.n == 0) {
        CHECK("split: no tokens -> NULL", got == NULL);
    } else {
        CHECK("split: token list returned", got != NULL);
        if (got) {
            for (i = 0; i < want.n; i++) {
                CHECK("split: as many tokens as the grammar defines", got[i] != NULL);
                if (!got[i]) {
                    break;
                }
                for (j = 0; j <= want.len[i]; j++) {
                    CHECK("split: token text equals the grammar's", (unsigned char) got[i][j] == want.t[i][j]);
                }
            }
            if (i == want.n) {
                CHECK("split: list NULL-terminated after the last token", got[want.n] == NULL);
            }
        }
    }
    for (i = 0; i <= len; i++) {
        CHECK("split: input untouched", s[i] == copy[i]);
    }
    WITNESS();
}

/* join(plain tokens) then split gives the tokens back; n tokens of lengths l1..l3 (0 = absent) */
static void
h_join(int comma, int l1, int l2, int l3)
{
    unsigned char tk[3][4];
    spif_charptr_t list[4];
    int lens[3], n = 0, i, j;
    spif_charptr_t joined, *back;

    lens[0] = l1; lens[1] = l2; lens[2] = l3;
    for (i = 0; i < 3 && lens[i] > 0; i++) {
        /* token text concrete: join sizes its result with strlen(), and a symbolic text makes that
         * allocation size symbolic (no verdict within 8 GB); the delimiter choice and the scratch
         * memory stay nondeterministic */
        for (j = 0; j < lens[i]; j++) {
            tk[i][j] = (unsigned char) ("abz"[(i + j) % 3]);
        }
        tk[i][lens[i]] = 0;
        list[i] = (spif_charptr_t) verif_tight_text(tk[i], lens[i]);
        n++;
    }
    list[n] = NULL;
    joined = spiftool_join(comma ? SPIF_CHARPTR(",") : SPIF_CHARPTR(" "), list);
    CHECK("join: result returned", joined != NULL);
    if (joined) {
        int pos = 0;

        for (i = 0; i < n; i++) {
            if (i) {
                CHECK("join: separator between tokens", joined[pos] == (comma ? ',' : ' '));
                pos++;
            }
            for (j = 0; j < lens[i]; j++, pos++) {
                CHECK("join: token bytes in order", (unsigned char) joined[pos] == tk[i][j]);
            }
        }
        CHECK("join: terminated", joined[pos] == 0);
        back = spiftool_split(comma ? SPIF_CHARPTR(",") : (spif_charptr_t) NULL, joined);
        CHECK("split(join(tokens)): list returned", back != NULL);
        if (back) {
            for (i = 0; i < n; i++) {
                CHECK("split(join(tokens)): same number of tokens", back[i] != NULL);
                if (!back[i]) {
                    break;
                }
                for (j = 0; j <= lens[i]; j++) {
                    CHECK("split(join(tokens)): same tokens", (unsigned char) back[i][j] == tk[i][j]);
                }
            }
            if (i == n) {
                CHECK("split(join(tokens)): nothing extra", back[n] == NULL);
            }
        }
    }
    WITNESS();
}

/* ---- word utilities */
typedef struct {
    int n;
    int len[MAXL + 1];
    int wsstart[MAXL + 1];
    unsigned char t[MAXL + 1][MAXL + 1];
} wordlist;

/* word grammar: whitespace-separated; a word that opens with a quote runs to the matching
 * quote; a backslash in front of a quote character makes that character ordinary */
static void
ref_words(const unsigned char *s, wordlist *out)
{
    int i = 0;

    out->n = 0;
    for (;;) {
        unsigned char q = 0;
        int k = 0;

        while (s[i] && ref_isspace(s[i])) {
            i++;
        }
        if (!s[i]) {
            break;
        }
        if (s[i] == '"' || s[i] == '\'') {
            q = s[i++];
        }
        while (s[i] && (q ? (s[i] != q) : !ref_isspace(s[i]))) {
            if (s[i] == '\\' && (s[i + 1] == '"' || s[i + 1] == '\'')) {
                i++;
            }
            out->t[out->n][k++] = s[i++];
        }
        if (q && s[i] == q) {
            i++;
        }
        out->t[out->n][k] = 0;
        out->len[out->n] = k;
        out->n++;
    }
}

static void
h_words(int len)
{
    unsigned char copy[MAXL + 1];
    unsigned char *s = sym_input(len, copy);
    wordlist want;
    unsigned long nw;
    int i, j;

    ref_words(copy, &want);
    nw = spiftool_num_words((spif_charptr_t) s);
    CHECK("num_words equals the word grammar's count", nw == (unsigned long) want.n);
    for (i = 1; i <= want.n; i++) {
        spif_charptr_t w = spiftool_get_word((unsigned long) i, (spif_charptr_t) s);

        CHECK("get_word(i) exists for every i in 1..num_words", w != NULL);
        if (w) {
            for (j = 0; j <= want.len[i - 1]; j++) {
                CHECK("get_word(i) is the i-th word", (unsigned char) w[j] == want.t[i - 1][j]);
            }
            free(w);
        }
    }
    for (i = 0; i <= len; i++) {
        CHECK("word utilities leave the input untouched", s[i] == copy[i]);
    }
    WITNESS();
}

/* get_pword(i): pointer to the i-th whitespace-separated word (one opening quote skipped) */
static void
h_pword(int len, int idx)
{
    unsigned char copy[MAXL + 1];
    unsigned char *s = sym_input(len, copy);
    spif_charptr_t p;
    int i = 0, k, want = -1;

    for (k = 1;; k++) {
        while (copy[i] && ref_isspace(copy[i])) {
            i++;
        }
        if (!copy[i] || k == idx) {
            break;
        }
        while (copy[i] && !ref_isspace(copy[i])) {
            i++;
        }
    }
    if (copy[i] && k == idx) {
        if (copy[i] == '"' || copy[i] == '\'') {
            i++;
        }
        if (copy[i]) {
            want = i;
        }
    }
    p = spiftool_get_pword((unsigned long) idx, (spif_charptr_t) s);
    if (want < 0) {
        CHECK("get_pword: no such word -> NULL", p == NULL);
    } else {
        CHECK("get_pword points at the i-th whitespace-separated word", p == (spif_charptr_t) s + want);
    }
    WITNESS();
}

#include VERIF_ENTRIES
