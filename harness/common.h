/* Dual-mode harness vocabulary.
 *
 * Under CBMC (goto-cc defines __CPROVER__) every symbolic input is drawn from
 * nondet_long() and stored in the global verif_in_v, so the counterexample
 * trace carries the ordered list of inputs.  Under -DREPLAY the same calls read
 * that list back from a file and the harness runs natively against the real,
 * sanitizer-instrumented objects.
 */
#ifndef VERIF_COMMON_H
#define VERIF_COMMON_H

#include <stddef.h>
#include <stdint.h>
#include <stdlib.h>
#include <string.h>

extern long verif_in_v;          /* last symbolic input (trace anchor)        */
extern int  verif_exited;        /* set by the exit()/fatal stub               */
extern int  verif_fatal_calls;   /* libast_fatal_error() calls seen            */
extern int  verif_out_calls;     /* output-primitive calls seen by the stubs   */

#ifdef REPLAY
# include <stdio.h>
# include <sanitizer/allocator_interface.h>
/* exact requested size of a heap block / is this the start of a live heap block (AddressSanitizer) */
# define OBJ_SIZE(p)        ((size_t) __sanitizer_get_allocated_size((const void *) (p)))
# define IS_ALLOC_START(p)  (__sanitizer_get_ownership((const void *) (p)) != 0)
long verif_next_input(void);
void verif_check_failed(const char *label);
void verif_infeasible(const char *what);
# define V_NONDET()        verif_next_input()
# define ASSUME(c)         do { if (!(c)) verif_infeasible(#c); } while (0)
# define CHECK(label, c)   do { if (!(c)) verif_check_failed(label); } while (0)
# define WITNESS()         do { } while (0)
# define CBMC_ONLY(stmt)   do { } while (0)
#else
# define OBJ_SIZE(p)        ((size_t) __CPROVER_OBJECT_SIZE(p))
# define IS_ALLOC_START(p)  (__CPROVER_POINTER_OFFSET(p) == 0)
long nondet_long(void);
# define V_NONDET()        nondet_long()
# define ASSUME(c)         __CPROVER_assume(c)
# define CHECK(label, c)   __CPROVER_assert((c), label)
# define WITNESS()         __CPROVER_assert(0, "witness")
# define CBMC_ONLY(stmt)   do { stmt; } while (0)
#endif

static inline long
V_RANGE(long lo, long hi)
{
    long v = V_NONDET();

    ASSUME(v >= lo && v <= hi);
    verif_in_v = v;
    return v;
}

#define V_BOOL()   ((int) V_RANGE(0, 1))
#define V_BYTE()   ((unsigned char) V_RANGE(0, 255))
#define V_CHAR()   ((unsigned char) V_RANGE(1, 255))      /* non-NUL byte */
#define V_U32()    ((uint32_t) V_RANGE(0, 0xffffffffL))
#define V_LONG()   V_RANGE((-0x7fffffffffffffffL - 1), 0x7fffffffffffffffL)

/* n symbolic bytes into p */
static inline void
V_BYTES(unsigned char *p, int n)
{
    int i;

    for (i = 0; i < n; i++) {
        p[i] = V_BYTE();
    }
}

/* n symbolic non-NUL bytes + terminator into p (p has n+1 bytes) */
static inline void
V_TEXT(unsigned char *p, int n)
{
    int i;

    for (i = 0; i < n; i++) {
        p[i] = V_CHAR();
    }
    p[n] = 0;
}

/* choose one of the n bytes of alphabet */
static inline unsigned char
V_ALPHA(const char *alphabet, int n)
{
    return (unsigned char) alphabet[V_RANGE(0, n - 1)];
}

/* exact-size heap copy of a text of n bytes (+NUL): any access at n+1 is a
 * bounds failure under CBMC and a redzone hit under ASan */
static inline unsigned char *
verif_tight_text(const unsigned char *src, int n)
{
    unsigned char *p = (unsigned char *) malloc((size_t) n + 1);
    int i;

    for (i = 0; i < n; i++) {
        p[i] = src[i];
    }
    p[n] = 0;
    return p;
}

#endif
