/* C17: spiftool_version_compare is safe, deterministic, antisymmetric, reflexive,
 * and orders well-formed versions as documented. */
#ifdef HAVE_CONFIG_H
# include <config.h>
#endif
#include <libast_internal.h>
#include "common.h"

#define NALPHA 9
static const char alphabet[NALPHA + 1] = "abrc019.-";

static unsigned char *
sym_text(int len, unsigned char *copy)
{
    int i;

    for (i = 0; i < len; i++) {
        copy[i] = V_ALPHA(alphabet, NALPHA);
    }
    copy[len] = 0;
    return verif_tight_text(copy, len);
}

/* laws on arbitrary strings of lengths (la, lb): safety, determinism, antisymmetry */
static void
h_laws(int la, int lb)
{
    unsigned char ca[8], cb[8];
    unsigned char *a = sym_text(la, ca), *b = sym_text(lb, cb);
    int r1, r2, r3, i;

    r1 = (int) spiftool_version_compare((spif_charptr_t) a, (spif_charptr_t) b);
    r2 = (int) spiftool_version_compare((spif_charptr_t) a, (spif_charptr_t) b);
    r3 = (int) spiftool_version_compare((spif_charptr_t) b, (spif_charptr_t) a);
    CHECK("result is one of LESS/EQUAL/GREATER", r1 >= -1 && r1 <= 1);
    CHECK("same arguments give the same answer (no dependence on stack contents)", r1 == r2);
    CHECK("compare(a,b) == -compare(b,a)", r1 == -r3);
    for (i = 0; i <= la; i++) {
        CHECK("arguments not modified", a[i] == ca[i]);
    }
    for (i = 0; i <= lb; i++) {
        CHECK("arguments not modified", b[i] == cb[i]);
    }
    WITNESS();
    free(a);
    free(b);
}

/* reflexivity: compare(a, a') == EQUAL for equal texts in distinct objects */
static void
h_refl(int la)
{
    unsigned char ca[8];
    unsigned char *a = sym_text(la, ca), *a2 = verif_tight_text(ca, la);

    CHECK("compare(a,a) == EQUAL", spiftool_version_compare((spif_charptr_t) a, (spif_charptr_t) a2) == SPIF_CMP_EQUAL);
    CHECK("compare(a,a) == EQUAL (same object)", spiftool_version_compare((spif_charptr_t) a, (spif_charptr_t) a) == SPIF_CMP_EQUAL);
    WITNESS();
    free(a);
    free(a2);
}

/* NULL ordering */
static void
h_null(int la)
{
    unsigned char ca[8];
    unsigned char *a = sym_text(la, ca);

    CHECK("NULL == NULL", spiftool_version_compare(NULL, NULL) == SPIF_CMP_EQUAL);
    CHECK("NULL < a", spiftool_version_compare(NULL, (spif_charptr_t) a) == SPIF_CMP_LESS);
    CHECK("a > NULL", spiftool_version_compare((spif_charptr_t) a, NULL) == SPIF_CMP_GREATER);
    WITNESS();
    free(a);
}

/* one long run of k characters of one class (0 letters, 1 digits, 2 punctuation),
 * compared with itself (other==0) or with a one-character string of the same class (other==1) */
static void
h_longrun(int cls, int k, int other)
{
    static const char two[3][2] = { {'a', 'Q'}, {'0', '7'}, {'.', '-'} };
    unsigned char *a = (unsigned char *) malloc((size_t) k + 1);
    unsigned char *b;
    int i, r1, r2;

    /* concrete filler: with symbolic run characters symex cannot fold the class tests and the
     * query does not finish (34 GB, no verdict); what stays nondeterministic is the stack */
    for (i = 0; i < k; i++) {
        a[i] = (unsigned char) two[cls][i & 1];
    }
    a[k] = 0;
    if (other) {
        b = (unsigned char *) malloc(2);
        b[0] = (unsigned char) two[cls][V_BOOL()];
        b[1] = 0;
    } else {
        b = (unsigned char *) malloc((size_t) k + 1);
        memcpy(b, a, (size_t) k + 1);
    }
    r1 = (int) spiftool_version_compare((spif_charptr_t) a, (spif_charptr_t) b);
    r2 = (int) spiftool_version_compare((spif_charptr_t) b, (spif_charptr_t) a);
    CHECK("long run: antisymmetric", r1 == -r2);
    if (!other) {
        CHECK("long run: equal texts compare EQUAL", r1 == 0);
    }
    WITNESS();
    free(a);
    free(b);
}

/* ---- ordering facts on generated well-formed versions */
static const char *const words[8] = { "snap", "pre", "alpha", "beta", "rc", "foo", "x", "PRE" };
static const int below_bare[8] = { 1, 1, 1, 1, 0, 0, 0, 1 };

static int
put_num(unsigned char *p, int nd, int *val)
{
    int i, v = 0;

    for (i = 0; i < nd; i++) {
        int d = (int) V_RANGE(0, 9);

        p[i] = (unsigned char) ('0' + d);
        v = v * 10 + d;
    }
    *val = v;
    return nd;
}

static int
put_str(unsigned char *p, const char *s)
{
    int n = 0;

    while (s[n]) {
        p[n] = (unsigned char) s[n];
        n++;
    }
    return n;
}

static int
sgn(int x)
{
    return (x > 0) - (x < 0);
}

static int
cmpv(unsigned char *a, int la, unsigned char *b, int lb)
{
    unsigned char *ta, *tb;
    int r, r2;

    a[la] = 0;
    b[lb] = 0;
    ta = verif_tight_text(a, la);
    tb = verif_tight_text(b, lb);
    r = (int) spiftool_version_compare((spif_charptr_t) ta, (spif_charptr_t) tb);
    r2 = (int) spiftool_version_compare((spif_charptr_t) tb, (spif_charptr_t) ta);
    CHECK("well-formed: antisymmetric", r == -r2);
    free(ta);
    free(tb);
    return r;
}

/* 1.Y vs 1.Z : numeric order of the second component; nd1, nd2 symbolic digits */
static void
h_ord_numeric(int nd1, int nd2)
{
    unsigned char a[16], b[16];
    int la, lb, y, z;

    la = put_str(a, "1.");
    lb = put_str(b, "1.");
    la += put_num(a + la, nd1, &y);
    lb += put_num(b + lb, nd2, &z);
    CHECK("numeric components are ordered numerically", cmpv(a, la, b, lb) == sgn(y - z));
    WITNESS();
}

/* 1<w1> vs 1<w2> for the five pre-release words: snap < pre < alpha < beta < rc
 * (text concrete; the scratch buffers and everything else on the stack stay nondeterministic) */
static void
h_ord_words(int w1, int w2)
{
    unsigned char a[16], b[16];
    int la, lb;

    la = put_str(a, "1");
    lb = put_str(b, "1");
    la += put_str(a + la, words[w1]);
    lb += put_str(b + lb, words[w2]);
    CHECK("snap < pre < alpha < beta < rc", cmpv(a, la, b, lb) == sgn(w1 - w2));
    WITNESS();
}

/* 1.0<w>[K] vs 1.0 : snap/pre/alpha/beta below the bare version, anything else above; K symbolic digit */
static void
h_ord_suffix(int w, int withnum)
{
    unsigned char a[20], b[20];
    int la, lb, k;

    la = put_str(a, "1.0");
    lb = put_str(b, "1.0");
    la += put_str(a + la, words[w]);
    if (withnum) {
        la += put_num(a + la, 1, &k);
    }
    CHECK("pre-release suffix below bare version, other suffix above", cmpv(a, la, b, lb) == (below_bare[w] ? -1 : 1));
    WITNESS();
}

/* 1.0<w>K vs 1.0<w>L : suffix number decides; K, L symbolic digits */
static void
h_ord_suffixnum(int w)
{
    unsigned char a[20], b[20];
    int la, lb, k, l;

    la = put_str(a, "1.0");
    la += put_str(a + la, words[w]);
    memcpy(b, a, (size_t) la); lb = la;
    la += put_num(a + la, 1, &k);
    lb += put_num(b + lb, 1, &l);
    CHECK("suffix number ordered numerically", cmpv(a, la, b, lb) == sgn(k - l));
    WITNESS();
}

/* 1(.2){d} vs the same plus (.K){e}, K symbolic digits: the longer version ranks above */
static void
h_ord_longer(int d, int e)
{
    unsigned char a[24], b[24];
    int la, lb, v, i;

    la = put_str(a, "1");
    for (i = 0; i < d; i++) {
        la += put_str(a + la, ".2");
    }
    memcpy(b, a, (size_t) la); lb = la;
    for (i = 0; i < e; i++) {
        b[lb++] = '.';
        lb += put_num(b + lb, 1, &v);
    }
    CHECK("a version ranks below a longer one that adds numeric components", cmpv(a, la, b, lb) == -1);
    WITNESS();
}

/* numbers too large for 32 bits: two nd-digit numbers (two leading digits symbolic, filler concrete):
 * no arithmetic overflow, antisymmetric */
static void
h_bignum(int nd)
{
    unsigned char a[40], b[40];
    int i;

    for (i = 0; i < nd; i++) {
        a[i] = (unsigned char) ('0' + ((i * 7) % 10));
        b[i] = (unsigned char) ('0' + ((i * 3) % 10));
    }
    a[0] = (unsigned char) ('0' + V_RANGE(1, 9));
    b[0] = (unsigned char) ('0' + V_RANGE(1, 9));
    if (nd > 1) {
        a[1] = (unsigned char) ('0' + V_RANGE(0, 9));
        b[1] = (unsigned char) ('0' + V_RANGE(0, 9));
    }
    (void) cmpv(a, nd, b, nd);
    WITNESS();
}

#include VERIF_ENTRIES
