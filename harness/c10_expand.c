/* C10: config value expansion is a pure function of line, environment and variable store.
 *
 * The input TEXT is a shape (one query per string: a symbolic byte in front of the expander's
 * switch makes symex walk every arm on every iteration and no query finishes).  Inside each query
 * the solver ranges over the environment (HOME and every referenced name: unset, empty, or 1-2
 * arbitrary bytes, chosen independently per name), and over every byte of the expander's scratch
 * buffers and of the input buffer beyond the terminator, which all start nondeterministic. */
#include "conf.c"            /* the real translation unit */
#include "common.h"

#define NALPHA 13
static const char alphabet[NALPHA + 1] = "a_ ~\\n${}()\"'";

/* ---------------------------------------------------------------- environment stub */
#define ENV_MAX 4
static char env_name[ENV_MAX][12];
static char env_val[ENV_MAX][4];
static int env_kind[ENV_MAX];       /* 0 unset, 1 empty, 2 one byte, 3 two bytes */
static int env_n;
int verif_env_all_unset;

char *
getenv(const char *name)
{
    int i, j;

    for (i = 0; i < env_n; i++) {
        for (j = 0; j < 11 && env_name[i][j] == name[j] && name[j]; j++) ;
        if (env_name[i][j] == name[j]) {
            return env_kind[i] ? env_val[i] : (char *) 0;
        }
    }
    if (env_n >= ENV_MAX) {
        return (char *) 0;
    }
    i = env_n++;
    for (j = 0; j < 11 && name[j]; j++) {
        env_name[i][j] = name[j];
    }
    env_name[i][j] = 0;
    env_kind[i] = verif_env_all_unset ? 0 : (int) V_RANGE(0, 3);
    env_val[i][0] = env_val[i][1] = env_val[i][2] = 0;
    if (env_kind[i] >= 2) {
        env_val[i][0] = (char) V_CHAR();
    }
    if (env_kind[i] == 3) {
        env_val[i][1] = (char) V_CHAR();
    }
    return env_kind[i] ? env_val[i] : (char *) 0;
}

/* ---------------------------------------------------------------- reference expander */
#define OUT_MAX 96
static int
ref_expand(const unsigned char *s, unsigned char *out, int limit)
{
    int i = 0, n = 0, in_s = 0, in_d = 0, k;
    char name[130];
    const char *v;

    while (s[i] && n < limit - 1) {
        unsigned char c = s[i];

        if (c == '~') {
            v = (!in_s && !in_d) ? getenv("HOME") : (const char *) 0;
            if (v && *v) {
                for (k = 0; v[k] && n < limit - 1; k++) {
                    out[n++] = (unsigned char) v[k];
                }
            } else {
                out[n++] = '~';
            }
            i++;
        } else if (c == '\\') {
            unsigned char d = s[i + 1];

            if (!d) {
                out[n++] = '\\';            /* a trailing backslash stays as it is */
                i++;
            } else if (!in_s || d == '\'') {
                unsigned char l = (d >= 'A' && d <= 'Z') ? (unsigned char) (d + 32) : d;

                switch (l) {
                    case 'n': out[n++] = '\n'; break;
                    case 'r': out[n++] = '\r'; break;
                    case 't': out[n++] = '\t'; break;
                    case 'b': out[n++] = '\b'; break;
                    case 'f': out[n++] = '\f'; break;
                    case 'a': out[n++] = '\a'; break;
                    case 'v': out[n++] = '\v'; break;
                    case 'e': out[n++] = '\033'; break;
                    default:  out[n++] = d; break;
                }
                i += 2;
            } else {
                out[n++] = '\\';            /* inside single quotes other escapes are left alone */
                if (n < limit - 1) {
                    out[n++] = d;
                }
                i += 2;
            }
        } else if (c == '$' && !in_s) {
            unsigned char close = 0;

            i++;
            if (s[i] == '{') {
                close = '}';
                i++;
            } else if (s[i] == '(') {
                close = ')';
                i++;
            }
            for (k = 0; k < 127 && s[i]; i++) {
                if (close ? (s[i] == close) : !((s[i] >= '0' && s[i] <= '9') || (s[i] >= 'a' && s[i] <= 'z') || (s[i] >= 'A' && s[i] <= 'Z') || s[i] == '_')) {
                    break;
                }
                name[k++] = (char) s[i];
            }
            name[k] = 0;
            if (close && s[i] == close) {
                i++;                          /* the closing brace belongs to the reference */
            }
            v = getenv(name);
            if (v && *v) {
                for (k = 0; v[k] && n < limit - 1; k++) {
                    out[n++] = (unsigned char) v[k];
                }
            }                                 /* unset or empty: replaced by nothing */
        } else {
            if (c == '"' && !in_s) {
                in_d = !in_d;
            } else if (c == '\'') {
                in_s = !in_s;
            }
            out[n++] = c;
            i++;
        }
    }
    out[n] = 0;
    return n;
}

static void
decode_text(int len, int code, unsigned char *t)
{
    int i;

    for (i = 0; i < len; i++, code /= NALPHA) {
        t[i] = (unsigned char) alphabet[code % NALPHA];
    }
    t[len] = 0;
}

/* longer texts over sub-alphabets that concentrate on one mechanism each: quote/escape/tilde, double quote/
 * escape/reference, braced references */
static const char *const sub_alpha[3] = { "'\\~a", "\"\\$a", "${}a" };
static int sub_sel = -1;

static void
decode_any(int len, int code, unsigned char *t)
{
    int i;

    if (sub_sel < 0) {
        decode_text(len, code, t);
        return;
    }
    for (i = 0; i < len; i++, code /= 4) {
        t[i] = (unsigned char) sub_alpha[sub_sel][code % 4];
    }
    t[len] = 0;
}

static void h_expand(int len, int code);

static void
h_expand_sub(int sub, int len, int code)
{
    sub_sel = sub;
    h_expand(len, code);
}

/* differential check on the text with index `code` among the strings of length `len` */
static void
h_expand(int len, int code)
{
    unsigned char text[12], want[OUT_MAX];
    unsigned char *buf = (unsigned char *) malloc(CONFIG_BUFF);     /* as the parser hands it over */
    spif_charptr_t r;
    int i, wn;

    decode_any(len, code, text);
    spifconf_init_subsystem();
    for (i = 0; i <= len; i++) {
        buf[i] = text[i];
    }                                       /* bytes beyond the terminator stay nondeterministic */
    r = spifconf_shell_expand((spif_charptr_t) buf);
    wn = ref_expand(text, want, CONFIG_BUFF);
    CHECK("expansion returns its input buffer", r == (spif_charptr_t) buf);
    if (r) {
        for (i = 0; i <= wn; i++) {
            CHECK("expanded text equals the expansion rules' result (and nothing from unwritten memory)", buf[i] == want[i]);
        }
        CHECK("result is NUL-terminated within the line-buffer limit", wn < CONFIG_BUFF);
    }
    WITNESS();
}

/* over-read: the same texts in an object of exactly len+1 bytes, environment empty (nothing grows) */
static void
h_overread(int len, int code)
{
    unsigned char text[12];
    unsigned char *buf;

    decode_text(len, code, text);
    verif_env_all_unset = 1;
    spifconf_init_subsystem();
    buf = verif_tight_text(text, len);
    (void) spifconf_shell_expand((spif_charptr_t) buf);
    WITNESS();
}

/* %-calls on concrete skeletons; the variable store content is symbolic */
static const char *const pct_text[] = {
    "%get(k)", "%put(k v)%get(k)", "%put(k v)%put(k w)%get(k)", "x%get(k)y", "%get(%get(k))", "%version()", "%get(", "%", "a%", "%x", "%get(q)",
    "%put(k v)%put(kk w)%get(k)%get(kk)", 0
};

static void
h_percent(int which, int preset)
{
    unsigned char *buf = (unsigned char *) malloc(CONFIG_BUFF);
    const char *t = pct_text[which];
    unsigned char v1 = 0, v2 = 0;
    spif_charptr_t r;
    int i, n = 0;
    unsigned char want[40];

    spifconf_init_subsystem();
    if (preset) {
        /* the store already maps k to a symbolic 1-2 character value */
        char *val = (char *) malloc(3);

        v1 = V_ALPHA("pq", 2);
        v2 = (unsigned char) (V_BOOL() ? 'r' : 0);
        val[0] = (char) v1; val[1] = (char) v2; val[2] = 0;
        spifconf_put_var((spif_charptr_t) strdup("k"), (spif_charptr_t) val);
    }
    for (i = 0; t[i]; i++) {
        buf[i] = (unsigned char) t[i];
    }
    buf[i] = 0;
    r = spifconf_shell_expand((spif_charptr_t) buf);
    /* expected text */
#define PUTS(str) do { const char *q_ = (str); while (*q_) want[n++] = (unsigned char) *q_++; } while (0)
#define PUTK()    do { if (preset) { want[n++] = v1; if (v2) want[n++] = v2; } } while (0)
    switch (which) {
        case 0: PUTK(); break;
        case 1: PUTS("v"); break;
        case 2: PUTS("w"); break;
        case 3: PUTS("x"); PUTK(); PUTS("y"); break;
        case 4: break;                         /* %get(<value of k>): no such variable unless the value names one */
        case 5: PUTS("0.8.1"); break;
        case 9: PUTS("x"); break;
        case 10: break;
        case 11: PUTS("vw"); break;
        default: break;
    }
    want[n] = 0;
    if (which == 6) {
        CHECK("unterminated call is refused", r == NULL);
    } else if (which == 7 || which == 8) {
        /* a lone trailing '%': only memory safety is asserted */
    } else if (which != 4 || !preset) {
        CHECK("expansion returns its input buffer", r == (spif_charptr_t) buf);
        for (i = 0; r && i <= n; i++) {
            CHECK("built-in call replaced by its result in place", buf[i] == want[i]);
        }
    }
    WITNESS();
}

/* variable store: one step from an arbitrary valid store (strictly ascending names, one entry per name) */
static void
h_store(int n, int op)
{
    static const char *const names[3] = { "b", "d", "f" };
    static const char *const probes[7] = { "a", "b", "c", "d", "e", "f", "g" };
    unsigned char vals[3];
    spifconf_var_t *v, *prev = NULL;
    int i, p = (int) V_RANGE(0, 6), idx = -1, cnt;
    spif_charptr_t got;

    spifconf_vars = NULL;
    for (i = n - 1; i >= 0; i--) {
        v = spifconf_new_var();
        v->var = (spif_charptr_t) strdup(names[i]);
        v->value = (spif_charptr_t) malloc(2);
        vals[i] = V_CHAR();
        v->value[0] = (spif_char_t) vals[i];
        v->value[1] = 0;
        v->next = spifconf_vars;
        spifconf_vars = v;
    }
    for (i = 0; i < n; i++) {
        if (probes[p][0] == names[i][0]) {
            idx = i;
        }
    }
    if (op == 0) {
        got = spifconf_get_var((spif_charptr_t) probes[p]);
        if (idx < 0) {
            CHECK("get of an unknown name finds nothing", got == NULL);
        } else {
            CHECK("get returns the value most recently put", got != NULL && (unsigned char) got[0] == vals[idx]);
        }
    } else if (op == 1) {
        char *nv = (char *) malloc(2);

        nv[0] = 'Z'; nv[1] = 0;
        spifconf_put_var((spif_charptr_t) strdup(probes[p]), (spif_charptr_t) nv);
        got = spifconf_get_var((spif_charptr_t) probes[p]);
        CHECK("put then get returns the new value", got != NULL && got[0] == 'Z');
    } else {
        spifconf_put_var((spif_charptr_t) strdup(probes[p]), (spif_charptr_t) NULL);
        CHECK("put of no value deletes the variable", spifconf_get_var((spif_charptr_t) probes[p]) == NULL);
    }
    for (cnt = 0, v = spifconf_vars; v && cnt < 6; prev = v, v = v->next, cnt++) {
        CHECK("store stays strictly ascending with one entry per name", !prev || strcmp((char *) prev->var, (char *) v->var) < 0);
    }
    CHECK("store has the expected number of entries", cnt == n + ((op == 1 && idx < 0) ? 1 : 0) - ((op == 2 && idx >= 0) ? 1 : 0));
    WITNESS();
}

#include VERIF_ENTRIES
