/* C20: debug output and assertions are gated exactly by the compile-time DEBUG value
 * (one build per value) and the runtime level (symbolic unsigned int) and silent flag. */
#include <libast_internal.h>
#include "common.h"

extern int verif_fatal_allowed;
static int evals;

#define GATE(L)   ((DEBUG >= (L)) && (libast_debug_level >= (unsigned int) (L)))

static void
setup(void)
{
    libast_debug_level = (unsigned int) V_RANGE(0, 0xffffffffL);
    libast_set_silent(V_BOOL() ? TRUE : FALSE);
    evals = 0;
    verif_out_calls = 0;
    verif_fatal_allowed = 0;
}

/* which: 0 D_OPTIONS 1 D_OBJ 2 D_CONF 3 D_MEM 4 D_STRINGS 5 D_PARSE, 11..19 DPRINTF1..9 */
static void
h_dmacro(int which)
{
    int expect = 0;

    setup();
    switch (which) {
        case 0:  D_OPTIONS(("%d", ++evals)); expect = GATE(DEBUG_OPTIONS); break;
        case 1:  D_OBJ(("%d", ++evals));     expect = GATE(DEBUG_OBJ); break;
        case 2:  D_CONF(("%d", ++evals));    expect = GATE(DEBUG_CONF); break;
        case 3:  D_MEM(("%d", ++evals));     expect = GATE(DEBUG_MEM); break;
        case 4:  D_STRINGS(("%d", ++evals)); expect = GATE(DEBUG_STRINGS); break;
        case 5:  D_PARSE(("%d", ++evals));   expect = GATE(DEBUG_PARSE); break;
        case 11: DPRINTF1(("%d", ++evals));  expect = (DEBUG >= 1) && libast_debug_level >= 1; break;
        case 12: DPRINTF2(("%d", ++evals));  expect = (DEBUG >= 1) && libast_debug_level >= 2; break;
        case 13: DPRINTF3(("%d", ++evals));  expect = (DEBUG >= 1) && libast_debug_level >= 3; break;
        case 14: DPRINTF4(("%d", ++evals));  expect = (DEBUG >= 1) && libast_debug_level >= 4; break;
        case 15: DPRINTF5(("%d", ++evals));  expect = (DEBUG >= 1) && libast_debug_level >= 5; break;
        case 16: DPRINTF6(("%d", ++evals));  expect = (DEBUG >= 1) && libast_debug_level >= 6; break;
        case 17: DPRINTF7(("%d", ++evals));  expect = (DEBUG >= 1) && libast_debug_level >= 7; break;
        case 18: DPRINTF8(("%d", ++evals));  expect = (DEBUG >= 1) && libast_debug_level >= 8; break;
        case 19: DPRINTF9(("%d", ++evals));  expect = (DEBUG >= 1) && libast_debug_level >= 9; break;
    }
    CHECK("debug statement produces output iff compiled in and the runtime level reaches its level", (verif_out_calls > 0) == (expect != 0));
    CHECK("debug statement evaluates its arguments exactly when it fires", evals == (expect ? 1 : 0));
    CHECK("debug statement never ends the process", !verif_exited);
    WITNESS();
}

/* message primitives with the silent flag set print nothing and return */
static void
h_silent(int which)
{
    libast_debug_level = (unsigned int) V_RANGE(0, 0xffffffffL);
    libast_set_silent(TRUE);
    verif_out_calls = 0;
    verif_fatal_allowed = 0;
    switch (which) {
        case 0: (void) libast_dprintf("x%d", 1); break;
        case 1: libast_print_warning("x%d", 1); break;
        case 2: libast_print_error("x%d", 1); break;
    }
    CHECK("silenced: nothing is printed", verif_out_calls == 0);
    WITNESS();
}

/* and print when not silenced */
static void
h_loud(int which)
{
    libast_debug_level = (unsigned int) V_RANGE(0, 0xffffffffL);
    libast_set_silent(FALSE);
    verif_out_calls = 0;
    verif_fatal_allowed = 0;
    switch (which) {
        case 0: (void) libast_dprintf("x%d", 1); break;
        case 1: libast_print_warning("x%d", 1); break;
        case 2: libast_print_error("x%d", 1); break;
    }
    CHECK("not silenced: the message is printed", verif_out_calls > 0);
    WITNESS();
}

static int
f_assert_rval(int c)
{
    ASSERT_RVAL(c + 0 * (++evals), 7);
    return 1;
}

static int f_assert_ret;
static void
f_assert(int c)
{
    f_assert_ret = 7;
    ASSERT(c + 0 * (++evals));
    f_assert_ret = 1;
}

static int
f_require_rval(int c)
{
    REQUIRE_RVAL(c + 0 * (++evals), 7);
    return 1;
}

static int
f_notreached_rval(void)
{
    ASSERT_NOTREACHED_RVAL(7);
    return 1;
}

/* kind: 0 ASSERT_RVAL, 1 ASSERT, 2 REQUIRE_RVAL, 3 ASSERT_NOTREACHED_RVAL; cond symbolic */
static void
h_assert(int kind)
{
    int c, r = 0, silent;

    libast_debug_level = (unsigned int) V_RANGE(0, 0xffffffffL);
    silent = V_BOOL();
    libast_set_silent(silent ? TRUE : FALSE);
    c = V_BOOL();
    evals = 0;
    verif_out_calls = 0;
    if (kind == 3) {
        c = 0;
    }
    /* a process end is legitimate exactly for a failed ASSERT with debugging compiled in at level >= 1 */
    verif_fatal_allowed = (kind != 2) && (DEBUG >= 1) && !c && (libast_debug_level >= 1);
    switch (kind) {
        case 0: r = f_assert_rval(c); break;
        case 1: f_assert(c); r = f_assert_ret; break;
        case 2: r = f_require_rval(c); break;
        case 3: r = f_notreached_rval(); break;
    }
    /* still running */
    CHECK("a failed ASSERT at runtime level >= 1 does not carry on", !verif_fatal_allowed);
    if (kind == 0 || kind == 1) {
        if (DEBUG == 0) {
            CHECK("debugging compiled out: ASSERT vanishes (no return, no evaluation, no output)", r == 1 && evals == 0 && verif_out_calls == 0);
        } else if (c) {
            CHECK("ASSERT that holds: execution continues silently", r == 1 && verif_out_calls == 0);
        } else {
            CHECK("failed ASSERT at level 0 returns the stated failure value", r == 7);
            CHECK("failed ASSERT at level 0 warns (unless silenced)", (verif_out_calls > 0) == !silent);
        }
    } else if (kind == 2) {
        CHECK("REQUIRE returns the stated value exactly when the condition fails", r == (c ? 1 : 7));
        if (DEBUG == 0 || c) {
            CHECK("REQUIRE that holds, or debugging compiled out: no output", verif_out_calls == 0);
        } else {
            CHECK("failed REQUIRE logs exactly at runtime level >= 1", (verif_out_calls > 0) == (libast_debug_level >= 1));
        }
    } else {
        CHECK("ASSERT_NOTREACHED_RVAL returns the stated value", r == 7);
        if (DEBUG == 0) {
            CHECK("debugging compiled out: no output", verif_out_calls == 0);
        } else {
            CHECK("reached ASSERT_NOTREACHED at level 0 warns (unless silenced)", (verif_out_calls > 0) == !silent);
        }
    }
    WITNESS();
}

#include VERIF_ENTRIES
