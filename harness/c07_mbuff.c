/* C07: mbuff is a faithful byte-sequence value (embedded NUL bytes included).
 * Same scheme as C01: inductive step per operation from an arbitrary valid state. */
#ifdef HAVE_CONFIG_H
# include <config.h>
#endif
#include <libast_internal.h>
#include "common.h"

#define F(x)   spif_mbuff_##x
#define MB_T   spif_mbuff_t
#define IDX_T  spif_memidx_t
#define MAXT 12

typedef struct {
    int len;
    unsigned char t[MAXT + 1];
} model;

static int
ref_isspace(unsigned char c)
{
    return c == ' ' || (c >= '\t' && c <= '\r');
}

static int
sgn(int x)
{
    return (x > 0) - (x < 0);
}

/* arbitrary valid state: len symbolic bytes (any value), capacity len+slack in an allocation of
 * exactly that size; slack == -1 (with len == 0) is the empty state (NULL,0,0) */
static MB_T
mk_state(int len, int slack, model *m)
{
    MB_T s = F(new)();
    int i;

    m->len = len;
    for (i = 0; i < len; i++) {
        m->t[i] = V_BYTE();
    }
    if (slack < 0) {
        return s;
    }
    s->size = len + slack;
    s->len = len;
    s->buff = (spif_byteptr_t) malloc((size_t) s->size);
    for (i = 0; i < len; i++) {
        s->buff[i] = m->t[i];
    }
    return s;
}

static unsigned char *
mk_bytes(int n, model *m)
{
    unsigned char *p = (unsigned char *) malloc((size_t) (n ? n : 1));
    int i;

    m->len = n;
    for (i = 0; i < n; i++) {
        p[i] = m->t[i] = V_BYTE();
    }
    return p;
}

static void
check_state(MB_T s, const model *m)
{
    int i;

    CHECK("object survives the operation", s != NULL);
    if (!s) {
        return;
    }
    CHECK("reported length equals the ideal sequence's", F(get_len)(s) == m->len);
    if (s->buff == NULL) {
        CHECK("no buffer only in the empty state (NULL,0,0)", s->len == 0 && s->size == 0);
        return;
    }
    CHECK("capacity never below length", F(get_size)(s) >= F(get_len)(s));
    CHECK("allocation at least as large as reported capacity", (IDX_T) OBJ_SIZE(s->buff) >= s->size);
    CHECK("buffer pointer is the start of its allocation", IS_ALLOC_START(s->buff));
    for (i = 0; i < m->len && i < MAXT; i++) {
        CHECK("bytes equal the ideal sequence", s->buff[i] == m->t[i]);
    }
}

static void
finish(MB_T s)
{
    WITNESS();
    if (s) {
        F(del)(s);
    }
}

static void
cat_model(model *m, const model *o)
{
    int i;

    for (i = 0; i < o->len; i++) {
        m->t[m->len++] = o->t[i];
    }
}

static void
pre_model(model *m, const model *o)
{
    int i;

    for (i = m->len - 1; i >= 0; i--) {
        m->t[i + o->len] = m->t[i];
    }
    for (i = 0; i < o->len; i++) {
        m->t[i] = o->t[i];
    }
    m->len += o->len;
}

/* pre: 0 append, 1 prepend */
static void
h_cat(int pre, int len, int slack, int olen, int oslack)
{
    model m, om;
    MB_T s = mk_state(len, slack, &m), o = mk_state(olen, oslack, &om);

    if (pre) {
        CHECK("prepend returns TRUE", F(prepend)(s, o) == TRUE);
        pre_model(&m, &om);
    } else {
        CHECK("append returns TRUE", F(append)(s, o) == TRUE);
        cat_model(&m, &om);
    }
    check_state(s, &m);
    check_state(o, &om);
    F(del)(o);
    finish(s);
}

static void
h_cat_ptr(int pre, int len, int slack, int olen)
{
    model m, om;
    MB_T s = mk_state(len, slack, &m);
    unsigned char *o = mk_bytes(olen, &om);

    if (pre) {
        CHECK("prepend_from_ptr returns TRUE", F(prepend_from_ptr)(s, o, (IDX_T) olen) == TRUE);
        pre_model(&m, &om);
    } else {
        CHECK("append_from_ptr returns TRUE", F(append_from_ptr)(s, o, (IDX_T) olen) == TRUE);
        cat_model(&m, &om);
    }
    check_state(s, &m);
    free(o);
    finish(s);
}

static int
splice_model(model *m, int idx, int cnt, const model *om)
{
    model r;
    int i, n = 0;

    if (idx < 0) {
        idx += m->len;
    }
    if (idx < 0 || idx >= m->len) {
        return 0;
    }
    if (cnt < 0) {
        cnt = idx + m->len + cnt;       /* the rule the code documents for negative counts */
    }
    if (cnt < 0 || cnt > m->len - idx) {
        return 0;
    }
    for (i = 0; i < idx; i++) {
        r.t[n++] = m->t[i];
    }
    for (i = 0; om && i < om->len; i++) {
        r.t[n++] = om->t[i];
    }
    for (i = idx + cnt; i < m->len; i++) {
        r.t[n++] = m->t[i];
    }
    r.len = n;
    *m = r;
    return 1;
}

static void
h_splice(int len, int slack, int idx, int cnt, int olen, int onull)
{
    model m, om;
    MB_T s = mk_state(len, slack, &m), o = onull ? (MB_T) NULL : mk_state(olen, olen ? 0 : -1, &om);
    int ok = splice_model(&m, idx, cnt, onull ? (model *) NULL : &om);
    spif_bool_t r = F(splice)(s, (IDX_T) idx, (IDX_T) cnt, o);

    CHECK("splice: in-range accepted, out-of-range refused", (r == TRUE) == (ok != 0));
    check_state(s, &m);
    if (o) {
        check_state(o, &om);
        F(del)(o);
    }
    finish(s);
}

static void
h_splice_ptr(int len, int slack, int idx, int cnt, int olen, int onull)
{
    model m, om;
    MB_T s = mk_state(len, slack, &m);
    unsigned char *o = onull ? NULL : mk_bytes(olen, &om);
    int ok = splice_model(&m, idx, cnt, onull ? (model *) NULL : &om);
    spif_bool_t r = F(splice_from_ptr)(s, (IDX_T) idx, (IDX_T) cnt, o, (IDX_T) olen);

    CHECK("splice_from_ptr: in-range accepted, out-of-range refused", (r == TRUE) == (ok != 0));
    check_state(s, &m);
    if (o) {
        free(o);
    }
    finish(s);
}

/* op: 0 trim, 1 reverse, 2 clear(c), 3 done, 4 done + init_from_ptr */
static void
h_unary(int op, int len, int slack)
{
    model m, r;
    MB_T s = mk_state(len, slack, &m);
    int i, a, b;
    unsigned char c, *p;

    r = m;
    switch (op) {
        case 0:
            for (a = 0; a < m.len && ref_isspace(m.t[a]); a++) ;
            for (b = m.len; b > a && ref_isspace(m.t[b - 1]); b--) ;
            r.len = 0;
            for (i = a; i < b; i++) {
                r.t[r.len++] = m.t[i];
            }
            CHECK("trim returns TRUE", F(trim)(s) == TRUE);
            break;
        case 1:
            for (i = 0; i < m.len; i++) {
                r.t[i] = m.t[m.len - 1 - i];
            }
            (void) F(reverse)(s);
            break;
        case 2:
            c = V_BYTE();
            for (i = 0; i < m.len; i++) {
                r.t[i] = c;
            }
            CHECK("clear returns TRUE", F(clear)(s, c) == TRUE);
            break;
        case 3:
            r.len = 0;
            CHECK("done returns TRUE", F(done)(s) == TRUE);
            CHECK("done leaves the empty state", s->buff == NULL && s->len == 0 && s->size == 0);
            break;
        case 4:
            CHECK("done returns TRUE", F(done)(s) == TRUE);
            p = mk_bytes(2, &r);
            CHECK("re-init returns TRUE", F(init_from_ptr)(s, p, 2) == TRUE);
            free(p);
            break;
    }
    check_state(s, &r);
    finish(s);
}

static int
find_model(const model *m, const model *n)
{
    int i, j;

    for (i = 0; i + n->len <= m->len; i++) {
        for (j = 0; j < n->len && m->t[i + j] == n->t[j]; j++) ;
        if (j == n->len) {
            return i;
        }
    }
    return m->len;
}

static void
h_index(int len, int slack)
{
    model m;
    MB_T s = mk_state(len, slack, &m);
    unsigned char c = V_BYTE();
    int i, first = len, last = len;

    for (i = 0; i < len; i++) {
        if (m.t[i] == c) {
            if (first == len) {
                first = i;
            }
            last = i;
        }
    }
    CHECK("index: first position, or the length when absent", F(index)(s, c) == first);
    CHECK("rindex: last position, or the length when absent", F(rindex)(s, c) == last);
    check_state(s, &m);
    finish(s);
}

static void
h_find(int len, int slack, int olen)
{
    model m, om, pm;
    MB_T s = mk_state(len, slack, &m), o = mk_state(olen, olen ? 0 : -1, &om);
    unsigned char *p = mk_bytes(olen, &pm);

    CHECK("find: first occurrence, or the length when absent", F(find)(s, o) == find_model(&m, &om));
    CHECK("find_from_ptr: first occurrence, or the length when absent", F(find_from_ptr)(s, p, (IDX_T) olen) == find_model(&m, &pm));
    check_state(s, &m);
    check_state(o, &om);
    free(p);
    F(del)(o);
    finish(s);
}

static void
h_sub(int len, int slack, int idx, int cnt)
{
    model m, r;
    MB_T s = mk_state(len, slack, &m), sub;
    spif_byteptr_t p;
    int start = idx, n = cnt, i, ok = 1;

    if (start < 0) {
        start += len;
    }
    if (start < 0 || start >= len) {
        ok = 0;
    } else {
        if (n <= 0) {
            n = len - start + n;
        }
        if (n < 0) {
            ok = 0;
        } else if (n > len - start) {
            n = len - start;
        }
    }
    sub = F(subbuff)(s, (IDX_T) idx, (IDX_T) cnt);
    p = F(subbuff_to_ptr)(s, (IDX_T) idx, (IDX_T) cnt);
    if (!ok) {
        CHECK("subbuff: position outside the buffer refused", sub == NULL);
        CHECK("subbuff_to_ptr: position outside the buffer refused", p == NULL);
    } else {
        r.len = n;
        for (i = 0; i < n; i++) {
            r.t[i] = m.t[start + i];
        }
        CHECK("subbuff: returns a buffer", sub != NULL);
        if (sub) {
            check_state(sub, &r);
        }
        CHECK("subbuff_to_ptr: returns a buffer", p != NULL);
        if (p) {
            for (i = 0; i < n; i++) {
                CHECK("subbuff_to_ptr: exactly the requested slice", p[i] == r.t[i]);
            }
        }
    }
    check_state(s, &m);
    if (sub) {
        F(del)(sub);
    }
    if (p) {
        free(p);
    }
    finish(s);
}

/* lexicographic order of the first n bytes (n < 0: everything), shorter prefix first */
static int
cmp_model(const model *a, const model *b, int n)
{
    int la = (n >= 0 && n < a->len) ? n : a->len, lb = (n >= 0 && n < b->len) ? n : b->len, i;

    for (i = 0; i < la && i < lb; i++) {
        if (a->t[i] != b->t[i]) {
            return (a->t[i] > b->t[i]) ? 1 : -1;
        }
    }
    return sgn(la - lb);
}

static void
h_cmp(int len, int slack, int olen)
{
    model m, om, pm;
    MB_T s = mk_state(len, slack, &m), o = mk_state(olen, olen ? 1 : -1, &om);
    unsigned char *p = mk_bytes(olen, &pm);
    int n = (int) V_RANGE(0, 4), k;

    CHECK("cmp: lexicographic, shorter prefix first", (int) F(cmp)(s, o) == cmp_model(&m, &om, -1));
    CHECK("comp: lexicographic, shorter prefix first", (int) F(comp)(s, o) == cmp_model(&m, &om, -1));
    CHECK("ncmp: first n bytes", (int) F(ncmp)(s, o, (IDX_T) n) == cmp_model(&m, &om, n));
    /* the _with_ptr forms compare exactly k caller-supplied bytes: defined for k <= length */
    k = (olen < len) ? olen : len;
    pm.len = k;
    CHECK("cmp_with_ptr: first k bytes", (int) F(cmp_with_ptr)(s, p, (IDX_T) k) == cmp_model(&m, &pm, k));
    CHECK("ncmp_with_ptr: first k bytes", (int) F(ncmp_with_ptr)(s, p, (IDX_T) k) == cmp_model(&m, &pm, k));
    (void) F(cmp_with_ptr)(s, p, (IDX_T) olen);          /* longer than the buffer: memory safety only */
    CHECK("cmp: NULL orders first", (int) F(cmp)(s, (MB_T) NULL) == 1 && (int) F(cmp)((MB_T) NULL, s) == -1);
    check_state(s, &m);
    check_state(o, &om);
    free(p);
    F(del)(o);
    finish(s);
}

static void
h_dup(int len, int slack)
{
    model m;
    MB_T s = mk_state(len, slack, &m), d;

    d = F(dup)(s);
    CHECK("dup returns an object", d != NULL);
    if (d) {
        CHECK("dup is a distinct object", d != s);
        CHECK("dup has its own buffer", d->buff == NULL || d->buff != s->buff);
        check_state(d, &m);
        F(del)(d);
    }
    check_state(s, &m);
    finish(s);
}

static void
h_new(void)
{
    model m;
    MB_T s = F(new)();

    m.len = 0;
    check_state(s, &m);
    finish(s);
}

static void
h_new_ptr(int len)
{
    model m;
    unsigned char *p = mk_bytes(len, &m);
    MB_T s = F(new_from_ptr)(p, (IDX_T) len);

    check_state(s, &m);
    free(p);
    finish(s);
}

static void
h_new_buff(int len, int size, int isnull)
{
    model m;
    unsigned char *p = mk_bytes(len, &m);
    MB_T s;

    if (isnull) {
        m.len = 0;
    }
    s = F(new_from_buff)(isnull ? (spif_byteptr_t) NULL : p, (IDX_T) len, (IDX_T) size);
    check_state(s, &m);
    if (s && s->buff) {
        CHECK("new_from_buff: capacity covers the requested size", s->size >= size);
    }
    free(p);
    finish(s);
}

/* C05: dup independence and comp laws for mbuff */
static void
h_dup_indep(int len, int slack)
{
    model m, dm;
    MB_T s = mk_state(len, slack, &m), d, d2;
    unsigned char x = 'x';

    d = F(dup)(s);
    CHECK("dup returns an object", d != NULL);
    if (!d) {
        return;
    }
    CHECK("dup is of the same class", SPIF_OBJ_CLASS(d) == SPIF_OBJ_CLASS(s));
    CHECK("type() names the object's class", F(type)(s) == SPIF_OBJ_CLASSNAME(s));
    dm = m;
    F(append_from_ptr)(d, &x, 1);
    dm.t[dm.len++] = 'x';
    check_state(d, &dm);
    check_state(s, &m);
    F(del)(d);
    check_state(s, &m);
    d2 = F(dup)(s);
    F(append_from_ptr)(s, &x, 1);
    F(del)(s);
    if (d2) {
        check_state(d2, &m);
    }
    finish(d2);
}

static void
h_comp_laws(int l1, int l2, int l3)
{
    model ma, mb, mc;
    MB_T a = mk_state(l1, l1 ? 0 : -1, &ma), b = mk_state(l2, 1, &mb), c = mk_state(l3, 0, &mc);
    int ab = (int) F(comp)(a, b), ba = (int) F(comp)(b, a), bc = (int) F(comp)(b, c), ac = (int) F(comp)(a, c), i, same;

    CHECK("comp is reflexive", (int) F(comp)(a, a) == 0 && (int) F(comp)(b, b) == 0);
    CHECK("comp is antisymmetric", ab == -ba);
    CHECK("comp is transitive", !(ab <= 0 && bc <= 0) || ac <= 0);
    same = (l1 == l2);
    for (i = 0; same && i < l1; i++) {
        same = (ma.t[i] == mb.t[i]);
    }
    CHECK("comp reports equality exactly for equal byte sequences (equal prefix, different length: not equal)", (ab == 0) == (same != 0));
    CHECK("NULL orders before every object", (int) F(comp)(a, (MB_T) NULL) == 1 && (int) F(comp)((MB_T) NULL, a) == -1);
    F(del)(b);
    F(del)(c);
    finish(a);
}

#ifdef VERIF_STREAMS
#include <errno.h>
#include "env_io.h"

static void
set_payload(int plen, model *m)
{
    int i;

    for (i = 0; i < plen; i++) {
        verif_payload[i] = m->t[i] = V_BYTE();
    }
    m->len = plen;
    verif_payload_len = plen;
    verif_payload_pos = 0;
    verif_io_calls = 0;
    verif_eof_flag = 0;
    verif_io_active = 1;
}

/* fd: 1 descriptor constructor, 0 stream constructor; seekable: regular file vs pipe;
 * k1,k2: transfer schedule of the first two calls (0 complete, j>0 short j) */
static void
h_from_file(int fd, int plen, int seekable, int k1, int k2)
{
    model m;
    MB_T s;

    set_payload(plen, &m);
    verif_seekable = seekable;
    verif_sched[0] = k1; verif_sched[1] = k2;
    verif_sched_n = 2;
    errno = 0;
    s = fd ? F(new_from_fd)(3) : F(new_from_fp)(VERIF_FP);
    verif_io_active = 0;
    if (plen == 0) {
        /* nothing to read: either no object or an empty one */
        if (s) {
            check_state(s, &m);
        }
    } else {
        check_state(s, &m);
    }
    finish(s);
}
#endif

#ifdef VERIF_FORMAT
static void
h_sprintf(int len, int slack, int mode, int alen)
{
    model m, r, am;
    MB_T s = mk_state(len, slack, &m);
    unsigned char a[8];
    int i;

    if (mode == 0) {
        CHECK("sprintf(\"\") succeeds", F(sprintf)(s, SPIF_CHARPTR("")) == TRUE);
        r.len = 0;
    } else {
        for (i = 0; i < alen; i++) {
            a[i] = am.t[i] = V_CHAR();
        }
        a[alen] = 0;
        am.len = alen;
        (void) F(sprintf)(s, SPIF_CHARPTR("%s"), a);
        r = am;
    }
    check_state(s, &r);
    finish(s);
}
#endif

#include VERIF_ENTRIES
