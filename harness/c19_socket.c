/* C19: sockets carry bytes intact under short I/O and never leak descriptors.
 * Everything below the system-call boundary is a stub (stubs/env_io.c, env_sock.c): the claim is about
 * libast's retry / continuation / accounting logic under every kernel behaviour the stubs allow. */
#ifdef HAVE_CONFIG_H
# include <config.h>
#endif
#include <libast_internal.h>
#include <errno.h>
#include "common.h"
extern char verif_peer_path[8];
extern int verif_peer_len;
#include "env_io.h"

extern int verif_fd_open[], verif_fd_next;
int verif_open_fds(void);

/* a connected stream socket object around descriptor 3 */
static spif_socket_t
mk_connected(void)
{
    spif_socket_t s = spif_socket_new();

    s->fd = 3;
    verif_fd_open[3] = 1;
    verif_fd_next = 4;
    s->flags = SPIF_SOCKET_FLAGS_FAMILY_UNIX | SPIF_SOCKET_FLAGS_TYPE_STREAM | SPIF_SOCKET_FLAGS_OPEN | SPIF_SOCKET_FLAGS_CONNECTED;
    return s;
}

/* ---- receive: the text equals the payload under every read schedule */
static void
h_recv(int plen, int k1, int k2, int k3, int stale_eintr)
{
    spif_socket_t s = mk_connected();
    spif_str_t got;
    int i;

    for (i = 0; i < plen; i++) {
        verif_payload[i] = V_CHAR();
    }
    verif_payload_len = plen;
    verif_payload_pos = 0;
    verif_io_calls = 0;
    verif_io_active = 1;
    verif_sched[0] = k1; verif_sched[1] = k2; verif_sched[2] = k3;
    verif_sched_n = 3;
    errno = stale_eintr ? EINTR : 0;
    got = spif_socket_recv(s);
    verif_io_active = 0;
    CHECK("recv returns a string", !SPIF_STR_ISNULL(got));
    if (!SPIF_STR_ISNULL(got)) {
        CHECK("received length equals the bytes sent", spif_str_get_len(got) == plen);
        CHECK("received text is NUL-terminated at its length with capacity above it", got->s != NULL && got->s[plen] == 0 && got->size > got->len);
        for (i = 0; i < plen && got->s; i++) {
            CHECK("received bytes equal the bytes sent, in order", (unsigned char) got->s[i] == verif_payload[i]);
        }
        spif_str_del(got);
    }
    WITNESS();
}

/* ---- send: when send() reports success the bytes the kernel accepted are exactly the payload */
static void
h_send(int plen, int k1, int k2, int k3)
{
    spif_socket_t s = mk_connected();
    unsigned char b[12];
    spif_str_t data;
    spif_bool_t r;
    int i;

    for (i = 0; i < plen; i++) {
        b[i] = V_CHAR();
    }
    b[plen] = 0;
    /* built directly so that its length is concrete for symex (a length computed by strnlen() over
     * symbolic bytes makes every write size symbolic and the query does not finish) */
    data = spif_str_new();
    data->s = (spif_charptr_t) malloc((size_t) plen + 1);
    memcpy(data->s, b, (size_t) plen + 1);
    data->len = plen;
    data->size = plen + 1;
    verif_sink_len = 0;
    verif_write_calls = 0;
    verif_io_active = 1;
    verif_wsched[0] = k1; verif_wsched[1] = k2; verif_wsched[2] = k3;
    verif_wsched_n = 3;
    errno = 0;
    r = spif_socket_send(s, data);
    verif_io_active = 0;
    CHECK("send succeeds when the kernel only delays or splits the transfer", r == TRUE);
    if (r == TRUE) {
        CHECK("every byte was handed to the kernel exactly once", verif_sink_len == plen);
        for (i = 0; i < plen && i < verif_sink_len; i++) {
            CHECK("bytes reach the kernel in order", verif_sink[i] == b[i]);
        }
    }
    WITNESS();
}

/* ---- descriptors: after deleting every socket object no descriptor the library opened is left,
 * and no live object refers to a closed descriptor */
static void
check_consistent(spif_socket_t s)
{
    if (s) {
        CHECK("a socket object never refers to a descriptor it has closed", s->fd < 0 || verif_fd_open[s->fd]);
    }
}

static spif_url_t
unix_url(void)
{
    return spif_url_new_from_ptr(SPIF_CHARPTR("unix:/p"));
}

/* role: 0 listener (local URL), 1 client (remote URL) */
static void
h_open(int role, int twice)
{
    spif_url_t u = unix_url();
    spif_socket_t s = role ? spif_socket_new_from_urls((spif_url_t) NULL, u) : spif_socket_new_from_urls(u, (spif_url_t) NULL);
    spif_bool_t r;

    spif_url_del(u);
    CHECK("socket object created", s != NULL);
    r = spif_socket_open(s);
    check_consistent(s);
    if (r) {
        CHECK("a successful open leaves the object holding an open descriptor", s->fd >= 0 && verif_fd_open[s->fd]);
    }
    if (twice) {
        (void) spif_socket_open(s);
        check_consistent(s);
    }
    spif_socket_del(s);
    CHECK("no descriptor is left open once the socket object is deleted", verif_open_fds() == 0);
    WITNESS();
}

static spif_socket_t
mk_listener(void)
{
    spif_url_t u = unix_url();
    spif_socket_t s = spif_socket_new_from_urls(u, (spif_url_t) NULL);

    spif_url_del(u);
    s->fd = 3;
    verif_fd_open[3] = 1;
    verif_fd_next = 4;
    s->fam = AF_UNIX;
    s->flags = SPIF_SOCKET_FLAGS_FAMILY_UNIX | SPIF_SOCKET_FLAGS_TYPE_STREAM | SPIF_SOCKET_FLAGS_OPEN | SPIF_SOCKET_FLAGS_LISTEN;
    return s;
}

/* accept (success or failure), then delete both objects in either order */
static void
h_accept(int order)
{
    spif_socket_t l = mk_listener(), a;

    a = spif_socket_accept(l);
    check_consistent(l);
    check_consistent(a);
    if (a) {
        CHECK("the accepted socket has its own open descriptor", a->fd >= 0 && a->fd != l->fd && verif_fd_open[a->fd]);
        if (!SPIF_URL_ISNULL(a->remote_url) && verif_peer_len >= 0) {
            spif_str_t pth = spif_url_get_path(a->remote_url);
            int i;

            /* the peer address the kernel reported, and nothing from the rest of the address block */
            CHECK("the accepted socket's peer path has the length the kernel reported", SPIF_STR_ISNULL(pth) ? verif_peer_len == 0 : (int) spif_str_get_len(pth) == verif_peer_len);
            for (i = 0; !SPIF_STR_ISNULL(pth) && i < verif_peer_len && i < (int) spif_str_get_len(pth); i++) {
                CHECK("the accepted socket's peer path is the one the kernel reported", SPIF_STR_STR(pth)[i] == verif_peer_path[i]);
            }
        }
    }
    if (order == 0) {
        spif_socket_del(l);
        check_consistent(a);
        if (a) {
            spif_socket_del(a);
        }
    } else {
        if (a) {
            spif_socket_del(a);
        }
        check_consistent(l);
        spif_socket_del(l);
    }
    CHECK("no descriptor is left open once every socket object is deleted", verif_open_fds() == 0);
    WITNESS();
}

/* op: 0 close then del, 1 dup then del both, 2 done then del, 3 close twice */
static void
h_lifecycle(int op)
{
    spif_socket_t s = mk_listener(), d = NULL;

    switch (op) {
        case 0:
            (void) spif_socket_close(s);
            CHECK("after close the object holds no descriptor", s->fd < 0);
            break;
        case 1:
            d = spif_socket_dup(s);
            check_consistent(d);
            if (d && d->fd >= 0) {
                CHECK("the copy owns a descriptor of its own", d->fd != s->fd);
            }
            break;
        case 2:
            (void) spif_socket_done(s);
            CHECK("after done the object holds no descriptor", s->fd < 0);
            break;
        case 3:
            (void) spif_socket_close(s);
            (void) spif_socket_close(s);
            break;
    }
    check_consistent(s);
    spif_socket_del(s);
    if (d) {
        spif_socket_del(d);
    }
    CHECK("no descriptor is left open once every socket object is deleted", verif_open_fds() == 0);
    WITNESS();
}

/* a hard write error: the descriptor must not stay open behind an object that forgot it */
static void
h_send_error(int err)
{
    spif_socket_t s = mk_connected();
    spif_str_t data = spif_str_new_from_ptr(SPIF_CHARPTR("ab"));

    verif_sink_len = 0;
    verif_write_calls = 0;
    verif_io_active = 1;
    verif_wsched[0] = err;           /* VERIF_IO_ERROR (EIO) */
    verif_wsched_n = 1;
    errno = 0;
    (void) spif_socket_send(s, data);
    verif_io_active = 0;
    check_consistent(s);
    spif_socket_del(s);
    spif_str_del(data);
    CHECK("no descriptor is left open once the socket object is deleted", verif_open_fds() == 0);
    WITNESS();
}

#include VERIF_ENTRIES
