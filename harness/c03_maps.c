/* C03: the map flavour of array / linked_list / dlinked_list is one finite dictionary.
 * Pre-state: n pairs with strictly ascending keys (Inv(map)).  Keys are a shape where they decide
 * a block-move size (array set/remove), symbolic elsewhere; values are always symbolic. */
#include "containers.h"

typedef struct {
    int n;
    int k[MAXN + 2], v[MAXN + 2];
    spif_obj_t p[MAXN + 2];           /* the stored pair objects */
} dict;

static spif_obj_t
mk_pair(int k, int v)
{
    spif_objpair_t p = spif_objpair_new();

    p->key = (spif_obj_t) vint_new_v(k);
    p->value = (spif_obj_t) vint_new_v(v);
    return (spif_obj_t) p;
}

/* keys: NULL -> symbolic strictly ascending keys 0..5; else concrete */
static spif_obj_t
mk_map(int cls, int n, const int *keys, dict *d)
{
    spif_obj_t c = new_container(cls, 2);
    seq s;
    int i;

    d->n = s.n = n;
    for (i = 0; i < n; i++) {
        int k = keys ? keys[i] : (int) V_RANGE(0, 5), v = (int) V_RANGE(0, 3);

        if (i > 0) {
            ASSUME(d->k[i - 1] < k);
        }
        d->k[i] = k;
        d->v[i] = v;
        d->p[i] = s.o[i] = mk_pair(k, v);
    }
    fill_container(cls, c, &s);
    return c;
}

/* post-state equals the dictionary d: pairs (by key/value), strictly ascending, representation valid;
 * same through count / get / has_key / iterator */
static void
check_map(int cls, spif_obj_t c, const dict *d)
{
    spif_obj_t got[MAXN + 2];
    spif_iterator_t it;
    int k = rep_extract(cls, c, got), i;

    CHECK("map holds one pair per key of the ideal dictionary (count)", k == d->n);
    for (i = 0; i < k && i < d->n; i++) {
        spif_objpair_t p = SPIF_OBJPAIR(got[i]);

        CHECK("map element is a pair object", p != NULL && SPIF_OBJ_IS_OBJPAIR(p));
        if (!p) {
            return;
        }
        CHECK("pair has a key and a value", p->key != NULL && p->value != NULL);
        if (!p->key || !p->value) {
            return;
        }
        CHECK("pairs in ascending key order, keys as in the ideal dictionary", VINT(p->key)->v == d->k[i]);
        CHECK("key maps to the value most recently set", VINT(p->value)->v == d->v[i]);
    }
    CHECK("count equals the number of keys", (int) SPIF_MAP_COUNT(SPIF_MAP(c)) == d->n);
    it = SPIF_MAP_ITERATOR(SPIF_MAP(c));
    CHECK("iterator created", it != NULL);
    if (it) {
        for (i = 0; i < k; i++) {
            CHECK("iterator has_next before count pairs", SPIF_ITERATOR_HAS_NEXT(it));
            CHECK("iterator yields the pairs in ascending key order", SPIF_ITERATOR_NEXT(it) == got[i]);
        }
        CHECK("iterator exhausted exactly after count pairs", !SPIF_ITERATOR_HAS_NEXT(it));
        SPIF_OBJ_DEL(it);
    }
    WITNESS();
}

static int
dict_find(const dict *d, int key)
{
    int i;

    for (i = 0; i < d->n; i++) {
        if (d->k[i] == key) {
            return i;
        }
    }
    return -1;
}

static void
dict_put(dict *d, int key, int val)
{
    int i = dict_find(d, key), j;

    if (i >= 0) {
        d->v[i] = val;
        return;
    }
    for (i = 0; i < d->n && d->k[i] < key; i++) ;
    for (j = d->n; j > i; j--) {
        d->k[j] = d->k[j - 1];
        d->v[j] = d->v[j - 1];
        d->p[j] = d->p[j - 1];
    }
    d->k[i] = key;
    d->v[i] = val;
    d->p[i] = NULL;
    d->n++;
}

static void
dict_del(dict *d, int i)
{
    for (; i + 1 < d->n; i++) {
        d->k[i] = d->k[i + 1];
        d->v[i] = d->v[i + 1];
        d->p[i] = d->p[i + 1];
    }
    d->n--;
}

static void
subset_keys(int mask, int *keys, int *n)
{
    int i;

    *n = 0;
    for (i = 0; i < 3; i++) {
        if ((mask >> i) & 1) {
            keys[(*n)++] = 1 + 2 * i;         /* subsets of {1,3,5} */
        }
    }
}

/* set(key, value); mask < 0: symbolic keys (n given) and symbolic probe key; else keys = subset `mask`
 * of {1,3,5} and concrete probe key x.  form: 0 = set(key, value), 1 = set(pair, NULL) */
static void
h_set(int cls, int n, int mask, int x, int form)
{
    dict d;
    int keys[4], key, val, existed;
    spif_obj_t c, ko, vo, got;
    spif_bool_t r;

    if (mask >= 0) {
        subset_keys(mask, keys, &n);
    }
    c = mk_map(cls, n, (mask >= 0) ? keys : (const int *) NULL, &d);
    key = (mask >= 0) ? x : (int) V_RANGE(0, 5);
    val = (int) V_RANGE(0, 3);
    existed = dict_find(&d, key) >= 0;
    ko = (spif_obj_t) vint_new_v(key);
    vo = (spif_obj_t) vint_new_v(val);
    if (form == 0) {
        r = SPIF_MAP_SET(SPIF_MAP(c), ko, vo);
    } else {
        spif_objpair_t pr = spif_objpair_new();

        pr->key = ko;
        pr->value = vo;
        r = SPIF_MAP_SET(SPIF_MAP(c), SPIF_OBJ(pr), (spif_obj_t) NULL);
        pr->key = pr->value = (spif_obj_t) NULL;
        free(pr);
    }
    CHECK("set reports whether it replaced an entry", (r != FALSE) == (existed != 0));
    dict_put(&d, key, val);
    got = SPIF_MAP_GET(SPIF_MAP(c), ko);
    CHECK("get after set returns the value just set", got != NULL && VINT(got)->v == val);
    CHECK("the map holds its own copy of the value", got != vo);
    /* the caller's key and value are the caller's: delete them and look again */
    SPIF_OBJ_DEL(ko);
    SPIF_OBJ_DEL(vo);
    check_map(cls, c, &d);
}

static void
h_remove(int cls, int n, int mask, int x)
{
    dict d;
    int keys[4], key, idx;
    spif_obj_t c, ko, r;

    if (mask >= 0) {
        subset_keys(mask, keys, &n);
    }
    c = mk_map(cls, n, (mask >= 0) ? keys : (const int *) NULL, &d);
    key = (mask >= 0) ? x : (int) V_RANGE(0, 5);
    idx = dict_find(&d, key);
    ko = (spif_obj_t) vint_new_v(key);
    r = SPIF_MAP_REMOVE(SPIF_MAP(c), ko);
    if (idx < 0) {
        CHECK("remove: absent key -> NULL", r == NULL);
    } else {
        CHECK("remove hands back the removed pair", r == d.p[idx]);
        dict_del(&d, idx);
        CHECK("removed key is no longer reachable", SPIF_MAP_GET(SPIF_MAP(c), ko) == NULL);
        CHECK("a second remove of the same key finds nothing", SPIF_MAP_REMOVE(SPIF_MAP(c), ko) == NULL);
        if (r) {
            SPIF_OBJ_DEL(r);              /* the caller owns the pair now */
        }
    }
    check_map(cls, c, &d);
}

/* the map must stay usable after a removal: remove then set a key above / below everything */
static void
h_remove_then_set(int cls, int n, int which, int newkey)
{
    dict d;
    int keys[4] = { 1, 3, 5, 7 }, val;
    spif_obj_t c = mk_map(cls, n, keys, &d), ko, vo, r;

    ko = (spif_obj_t) vint_new_v(keys[which]);
    r = SPIF_MAP_REMOVE(SPIF_MAP(c), ko);
    CHECK("remove hands back the removed pair", r == d.p[which]);
    dict_del(&d, which);
    SPIF_OBJ_DEL(ko);
    ko = (spif_obj_t) vint_new_v(newkey);
    val = (int) V_RANGE(0, 3);
    vo = (spif_obj_t) vint_new_v(val);
    CHECK("set of a new key after a removal reports no replacement", SPIF_MAP_SET(SPIF_MAP(c), ko, vo) == FALSE);
    dict_put(&d, newkey, val);
    check_map(cls, c, &d);
}

/* get / has_key / has_value with symbolic keys, values and probes */
static void
h_query(int cls, int n)
{
    dict d;
    spif_obj_t c = mk_map(cls, n, (const int *) NULL, &d), ko, vo, got;
    int key = (int) V_RANGE(-1, 6), val = (int) V_RANGE(0, 3), idx, i, hasv = 0;

    idx = dict_find(&d, key);
    for (i = 0; i < n; i++) {
        hasv |= (d.v[i] == val);
    }
    ko = (spif_obj_t) vint_new_v(key);
    vo = (spif_obj_t) vint_new_v(val);
    got = SPIF_MAP_GET(SPIF_MAP(c), ko);
    if (idx < 0) {
        CHECK("get: absent key (below, between, above) -> NULL", got == NULL);
    } else {
        CHECK("get: the stored value of the key", got == SPIF_OBJPAIR(d.p[idx])->value);
    }
    CHECK("has_key agrees with the dictionary", (SPIF_MAP_HAS_KEY(SPIF_MAP(c), ko) != FALSE) == (idx >= 0));
    CHECK("has_value agrees with the dictionary", (SPIF_MAP_HAS_VALUE(SPIF_MAP(c), vo) != FALSE) == (hasv != 0));
    check_map(cls, c, &d);
}

/* get_keys / get_values / get_pairs into a fresh list (into == 0) or appended to an existing one-element list */
static void
h_lists(int cls, int n, int what, int into)
{
    dict d;
    spif_obj_t c = mk_map(cls, n, (const int *) NULL, &d), first = NULL;
    spif_list_t l = (spif_list_t) NULL, r;
    int i, base = 0;

    if (into) {
        l = SPIF_LIST_NEW(array);
        first = (spif_obj_t) vint_new_v(9);
        SPIF_LIST_APPEND(l, first);
        base = 1;
    }
    r = (what == 0) ? SPIF_MAP_GET_KEYS(SPIF_MAP(c), l) : ((what == 1) ? SPIF_MAP_GET_VALUES(SPIF_MAP(c), l) : SPIF_MAP_GET_PAIRS(SPIF_MAP(c), l));
    CHECK("a list is returned", r != NULL);
    if (into) {
        CHECK("the caller's list is the one filled", r == l);
    }
    if (r) {
        CHECK("one entry per key (after what the list already held)", SPIF_LIST_COUNT(r) == base + n);
        if (into) {
            CHECK("existing content kept", SPIF_LIST_GET(r, 0) == first);
        }
        for (i = 0; i < n; i++) {
            spif_obj_t e = SPIF_LIST_GET(r, base + i);

            CHECK("entry present", e != NULL);
            if (!e) {
                break;
            }
            if (what == 0) {
                CHECK("keys come out in ascending order, as copies", VINT(e)->v == d.k[i] && e != SPIF_OBJPAIR(d.p[i])->key);
            } else if (what == 1) {
                CHECK("values come out in key order, as copies", VINT(e)->v == d.v[i] && e != SPIF_OBJPAIR(d.p[i])->value);
            } else {
                CHECK("pairs come out in key order, as copies", e != d.p[i] && SPIF_OBJ_IS_OBJPAIR(e)
                      && VINT(SPIF_OBJPAIR(e)->key)->v == d.k[i] && VINT(SPIF_OBJPAIR(e)->value)->v == d.v[i]);
            }
        }
    }
    check_map(cls, c, &d);
}

#include VERIF_ENTRIES
