/* C14: URL objects decompose and recompose well-formed URLs exactly; any byte string parses safely. */
#ifdef HAVE_CONFIG_H
# include <config.h>
#endif
#include <libast_internal.h>
#include "common.h"

extern int verif_serv_found, verif_serv_port_net, verif_lookup_calls, verif_proto_after_serv, verif_proto_found;

#define P_PROTO 1
#define P_USER 2
#define P_PASS 4
#define P_HOST 8
#define P_PORT 16
#define P_PATH 32
#define P_QUERY 64

typedef struct {
    int len;
    unsigned char t[8];
} comp;

static int variant;

static void
sym_comp(comp *c, int len, const char *alpha, int na, const char *first)
{
    int i;

    c->len = len;
    /* concrete characters, cycling through the component's alphabet (so the password does contain
     * ':', the path '@' and ':', the query '?'): a symbolic character makes strlen() and with it every
     * allocation size symbolic, and no round-trip query finishes.  The solver's variables here are the
     * outcomes of the name-service lookups and the service port. */
    for (i = 0; i < len; i++) {
        c->t[i] = (i == 0 && first) ? (unsigned char) first[0] : (unsigned char) alpha[(i + len + variant) % na];
    }
    c->t[len] = 0;
}

static int
put(unsigned char *b, int pos, const comp *c)
{
    int i;

    for (i = 0; i < c->len; i++) {
        b[pos++] = c->t[i];
    }
    return pos;
}

static void
expect(const char *what, spif_str_t got, int present, const comp *c)
{
    int i;

    (void) what;
    if (!present) {
        CHECK("absent component reported as absent", SPIF_STR_ISNULL(got));
        return;
    }
    CHECK("present component reported", !SPIF_STR_ISNULL(got));
    if (SPIF_STR_ISNULL(got)) {
        return;
    }
    CHECK("component length", spif_str_get_len(got) == c->len);
    for (i = 0; i <= c->len; i++) {
        CHECK("component text", (unsigned char) SPIF_STR_STR(got)[i] == c->t[i]);
    }
}

/* canonical text of a component tuple (what unparse produces) */
static int
assemble(unsigned char *b, int mask, const comp *proto, const comp *user, const comp *pass, const comp *host,
         const comp *port, const comp *path, const comp *query)
{
    int n = 0;

    if (mask & P_PROTO) {
        n = put(b, n, proto);
        b[n++] = ':';
    }
    if (mask & P_HOST) {
        b[n++] = '/';
        b[n++] = '/';
    }
    if (mask & P_USER) {
        n = put(b, n, user);
        if (mask & P_PASS) {
            b[n++] = ':';
            n = put(b, n, pass);
        }
        b[n++] = '@';
    }
    if (mask & P_HOST) {
        n = put(b, n, host);
        if (mask & P_PORT) {
            b[n++] = ':';
            n = put(b, n, port);
        }
    }
    if (mask & P_PATH) {
        n = put(b, n, path);
    }
    if (mask & P_QUERY) {
        b[n++] = '?';
        n = put(b, n, query);
    }
    b[n] = 0;
    return n;
}

static void
h_roundtrip(int mask, int l2)
{
    comp proto, user, pass, host, port, path, query, sport;
    unsigned char text[48];
    unsigned char *tight;
    spif_url_t u, v;
    int n, i, filled;

    variant = l2;
    sym_comp(&proto, 1 + l2, "ht", 2, NULL);
    sym_comp(&user, 1, "ux", 2, NULL);
    sym_comp(&pass, 2 + l2, "p:", 2, NULL);
    sym_comp(&host, 1 + l2, "a.", 2, "a");
    sym_comp(&port, 1 + l2, "80", 2, NULL);
    sym_comp(&path, 3 + l2, "d@:", 3, "/");
    sym_comp(&query, 2 + l2, "q=?", 3, NULL);
    n = assemble(text, mask, &proto, &user, &pass, &host, &port, &path, &query);
    tight = verif_tight_text(text, n);
    verif_serv_found = verif_proto_after_serv = verif_proto_found = verif_lookup_calls = 0;
    u = spif_url_new_from_ptr((spif_charptr_t) tight);
    CHECK("URL object created", !SPIF_URL_ISNULL(u));
    if (SPIF_URL_ISNULL(u)) {
        return;
    }
    expect("proto", spif_url_get_proto(u), mask & P_PROTO, &proto);
    expect("user", spif_url_get_user(u), mask & P_USER, &user);
    expect("passwd", spif_url_get_passwd(u), mask & P_PASS, &pass);
    expect("host", spif_url_get_host(u), mask & P_HOST, &host);
    expect("path", spif_url_get_path(u), mask & P_PATH, &path);
    expect("query", spif_url_get_query(u), mask & P_QUERY, &query);
    filled = 0;
    if (mask & P_PORT) {
        expect("port", spif_url_get_port(u), 1, &port);
    } else if (!(mask & P_PROTO)) {
        CHECK("no protocol, no port given: port absent and no lookup made", SPIF_STR_ISNULL(spif_url_get_port(u)) && verif_lookup_calls == 0);
    } else if (!verif_serv_found || !verif_proto_after_serv) {
        /* scheme is itself a protocol name, or no service of that name, or the service's protocol is unknown */
        CHECK("no usable service entry: port stays absent", SPIF_STR_ISNULL(spif_url_get_port(u)));
    } else {
        filled = 1;
        CHECK("service found: port filled from the service database", !SPIF_STR_ISNULL(spif_url_get_port(u))
              && spif_str_to_num(spif_url_get_port(u), 10) == (size_t) ntohs((unsigned short) verif_serv_port_net));
    }
    if (!filled) {
        /* recompose: canonical text, then the same components again */
        CHECK("unparse succeeds", spif_url_unparse(u) == TRUE);
        CHECK("unparse rebuilds the canonical text (length)", spif_str_get_len(SPIF_STR(u)) == n);
        for (i = 0; i <= n && i <= spif_str_get_len(SPIF_STR(u)); i++) {
            CHECK("unparse rebuilds the canonical text", (unsigned char) SPIF_STR_STR(SPIF_STR(u))[i] == text[i]);
        }
        if (!((mask & P_PROTO) && !(mask & P_PORT))) {
            v = spif_url_new_from_str(SPIF_STR(u));
            CHECK("re-parse creates an object", !SPIF_URL_ISNULL(v));
            if (!SPIF_URL_ISNULL(v)) {
                expect("proto", spif_url_get_proto(v), mask & P_PROTO, &proto);
                expect("user", spif_url_get_user(v), mask & P_USER, &user);
                expect("passwd", spif_url_get_passwd(v), mask & P_PASS, &pass);
                expect("host", spif_url_get_host(v), mask & P_HOST, &host);
                expect("port", spif_url_get_port(v), mask & P_PORT, &port);
                expect("path", spif_url_get_path(v), mask & P_PATH, &path);
                expect("query", spif_url_get_query(v), mask & P_QUERY, &query);
                spif_url_del(v);
            }
        }
    }
    (void) sport;
    WITNESS();
    spif_url_del(u);
    free(tight);
}

/* any byte string parses without a memory fault, whatever the lookups return.  The position of the
 * delimiters decides every allocation size, so each byte's CLASS is a shape (digit of `code`, base 6:
 * 0 ':', 1 '/', 2 '?', 3 '@', 4 alphanumeric, 5 anything else) with a fixed representative per class: a
 * symbolic byte makes strlen() - hence every allocation size - symbolic and no query finishes (126 s for ONE
 * byte).  What the solver ranges over here is the outcome of every name-service lookup and the port value. */
static void
h_robust(int len, int code)
{
    static const char delim[4] = { ':', '/', '?', '@' };
    unsigned char b[8];
    unsigned char *tight;
    spif_url_t u;
    int i;

    for (i = 0; i < len; i++, code /= 6) {
        int cls = code % 6;

        if (cls < 4) {
            b[i] = (unsigned char) delim[cls];
        } else if (cls == 4) {
            b[i] = (unsigned char) ("aZ7"[i % 3]);
        } else {
            b[i] = (unsigned char) ("-\x80. \xff%"[i % 6]);
        }
    }
    b[len] = 0;
    tight = verif_tight_text(b, len);
    u = spif_url_new_from_ptr((spif_charptr_t) tight);
    if (!SPIF_URL_ISNULL(u)) {
        (void) spif_url_unparse(u);
        spif_url_del(u);
    }
    WITNESS();
    free(tight);
}

#include VERIF_ENTRIES
