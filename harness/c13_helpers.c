/* C13: bounded and in-place string helpers (src/strings.c). */
#ifdef HAVE_CONFIG_H
# include <config.h>
#endif
#include <libast_internal.h>
#include "common.h"

#define MAXL 8

static int
ref_isspace(unsigned char c)
{
    return c == ' ' || (c >= '\t' && c <= '\r');
}

static int
ref_iscntrl(unsigned char c)
{
    return c < 32 || c == 127;
}

/* ---- safe_strncpy: size 1.., dest of exactly `size` bytes, src of exactly slen+1 bytes */
static void
h_strncpy(int size, int slen)
{
    unsigned char src_copy[MAXL + 1], before[MAXL];
    unsigned char *dest = (unsigned char *) malloc((size_t) size);
    unsigned char *src;
    int i, keep, r;

    V_BYTES(dest, size);
    memcpy(before, dest, (size_t) size);
    V_TEXT(src_copy, slen);
    src = verif_tight_text(src_copy, slen);

    r = spiftool_safe_strncpy((spif_charptr_t) dest, (spif_charptr_t) src, size);

    keep = (slen < size - 1) ? slen : size - 1;
    for (i = 0; i < keep; i++) {
        CHECK("strncpy: longest fitting prefix stored", dest[i] == src_copy[i]);
    }
    CHECK("strncpy: NUL-terminated inside size", dest[keep] == 0);
    CHECK("strncpy: returns true exactly when nothing was cut", (r != 0) == (slen <= size - 1));
    for (i = 0; i <= slen; i++) {
        CHECK("strncpy: source untouched", src[i] == src_copy[i]);
    }
    WITNESS();
    free(dest);
    free(src);
}

/* ---- safe_strncat: dest bytes fully symbolic (so the prior text length, incl. "no NUL in size", is symbolic) */
static void
h_strncat(int size, int slen)
{
    unsigned char src_copy[MAXL + 1], before[MAXL];
    unsigned char *dest = (unsigned char *) malloc((size_t) size);
    unsigned char *src;
    int i, p, room, keep, r;

    V_BYTES(dest, size);
    memcpy(before, dest, (size_t) size);
    V_TEXT(src_copy, slen);
    src = verif_tight_text(src_copy, slen);
    for (p = 0; p < size && before[p]; p++) ;

    r = spiftool_safe_strncat((spif_charptr_t) dest, (spif_charptr_t) src, size);

    if (p >= size) {
        CHECK("strncat: unterminated destination is refused", r == 0);
        for (i = 0; i < size; i++) {
            CHECK("strncat: refused call leaves destination unchanged", dest[i] == before[i]);
        }
    } else {
        room = size - 1 - p;
        keep = (slen < room) ? slen : room;
        for (i = 0; i < p; i++) {
            CHECK("strncat: existing text preserved", dest[i] == before[i]);
        }
        for (i = 0; i < keep; i++) {
            CHECK("strncat: longest fitting prefix appended", dest[p + i] == src_copy[i]);
        }
        CHECK("strncat: NUL-terminated inside size", dest[p + keep] == 0);
        CHECK("strncat: returns true exactly when nothing was cut", (r != 0) == (slen <= room));
    }
    WITNESS();
    free(dest);
    free(src);
}

/* ---- substr: idx, cnt shape (they feed the allocation size) */
static void
h_substr(int len, int idx, int cnt)
{
    unsigned char copy[MAXL + 1];
    unsigned char *s, *r;
    int start, want, i, rl;

    V_TEXT(copy, len);
    s = verif_tight_text(copy, len);
    r = (unsigned char *) spiftool_substr((spif_charptr_t) s, idx, cnt);

    start = (idx < 0) ? len + idx : idx;
    if (start < 0 || start >= len) {
        CHECK("substr: position outside the text is refused", r == NULL);
    } else {
        want = (cnt > 0) ? cnt : len - start + cnt;
        if (want >= 0 && want <= len - start) {
            CHECK("substr: in-range request returns a string", r != NULL);
            if (r) {
                for (i = 0; i < want; i++) {
                    CHECK("substr: exactly the requested slice", r[i] == copy[start + i]);
                }
                CHECK("substr: slice terminated at requested length", r[want] == 0);
            }
        } else if (r) {
            /* out-of-range count: refusal or an in-bounds clamp are both accepted */
            for (rl = 0; rl <= len - start && r[rl]; rl++) {
                CHECK("substr: clamped result is a slice of the text", r[rl] == copy[start + rl]);
            }
            CHECK("substr: clamped result stays inside the text", rl <= len - start);
        }
    }
    for (i = 0; i <= len; i++) {
        CHECK("substr: source untouched", s[i] == copy[i]);
    }
    WITNESS();
    if (r) {
        free(r);
    }
    free(s);
}

/* ---- in-place helpers: op 0 chomp, 1 condense, 2 downcase, 3 upcase, 4 strrev */
static void
h_inplace(int op, int len)
{
    unsigned char in[MAXL + 1], want[MAXL + 1];
    unsigned char *s, *r = NULL;
    int i, wl = 0, a, b;

    V_TEXT(in, len);
    s = verif_tight_text(in, len);
    switch (op) {
        case 0:
            for (a = 0; a < len && ref_isspace(in[a]); a++) ;
            for (b = len; b > a && ref_isspace(in[b - 1]); b--) ;
            for (i = a; i < b; i++) {
                want[wl++] = in[i];
            }
            r = (unsigned char *) spiftool_chomp((spif_charptr_t) s);
            break;
        case 1:
            for (i = 0; i < len; i++) {
                if (ref_isspace(in[i])) {
                    if (i == 0 || !ref_isspace(in[i - 1])) {
                        want[wl++] = ' ';
                    }
                } else {
                    want[wl++] = in[i];
                }
            }
            if (wl > 0 && want[wl - 1] == ' ') {
                wl--;
            }
            r = (unsigned char *) spiftool_condense_whitespace((spif_charptr_t) s);
            s = r;            /* realloc'ed */
            break;
        case 2:
            for (i = 0; i < len; i++) {
                want[wl++] = (in[i] >= 'A' && in[i] <= 'Z') ? (unsigned char) (in[i] + 32) : in[i];
            }
            r = (unsigned char *) spiftool_downcase_str((spif_charptr_t) s);
            break;
        case 3:
            for (i = 0; i < len; i++) {
                want[wl++] = (in[i] >= 'a' && in[i] <= 'z') ? (unsigned char) (in[i] - 32) : in[i];
            }
            r = (unsigned char *) spiftool_upcase_str((spif_charptr_t) s);
            break;
        case 4:
            for (i = 0; i < len; i++) {
                want[wl++] = in[len - 1 - i];
            }
            r = (unsigned char *) strrev((char *) s);
            break;
    }
    CHECK("in-place helper returns its argument", r != NULL && (op == 1 || r == s));
    if (r) {
        for (i = 0; i < wl; i++) {
            CHECK("in-place helper: reference transformation", r[i] == want[i]);
        }
        CHECK("in-place helper: terminated at reference length (never longer)", r[wl] == 0);
    }
    WITNESS();
    free(s);
}

/* ---- safe_str: exactly `len` bytes of any value, object of exactly len bytes */
static void
h_safe_str(int len)
{
    unsigned char in[MAXL + 1];
    unsigned char *s = (unsigned char *) malloc((size_t) len);
    unsigned char *r;
    int i;

    for (i = 0; i < len; i++) {
        s[i] = in[i] = V_BYTE();
    }
    r = (unsigned char *) spiftool_safe_str((spif_charptr_t) s, (unsigned short) len);
    CHECK("safe_str returns its argument", r == s);
    for (i = 0; i < len; i++) {
        CHECK("safe_str: control bytes become '.', others unchanged", s[i] == (ref_iscntrl(in[i]) ? '.' : in[i]));
    }
    WITNESS();
    free(s);
}

#include VERIF_ENTRIES
