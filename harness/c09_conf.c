/* C09 + C11: config parser delivery order, stack/table growth, path lookup, temp files, lifecycle.
 * The harness includes the real conf.c so that its private stacks and tables are directly visible. */
#include "conf.c"
#include "common.h"
#include "env_io.h"

extern int verif_spawn_allowed, verif_spawns, verif_fopens, verif_fcloses, verif_mkstemp_umask, verif_fchmod_mode, verif_umask_now;
extern char verif_mkstemp_template[];

char *
getenv(const char *name)
{
    (void) name;
    return (char *) 0;
}

/* ---------------------------------------------------------------- logging context handlers */
#define LOG_MAX 12
static struct {
    int ctx, kind;               /* kind: 1 BEGIN, 2 END, 3 text */
    unsigned char text[8];
    void *in, *out;
} vlog[LOG_MAX];
static int nlog;

static void *
handle(int ctx, spif_charptr_t buff, void *state)
{
    void *out = (void *) (uintptr_t) V_RANGE(1, 1000);
    int i;

    if (nlog < LOG_MAX) {
        vlog[nlog].ctx = ctx;
        vlog[nlog].kind = (*buff == SPIFCONF_BEGIN_CHAR) ? 1 : ((*buff == SPIFCONF_END_CHAR) ? 2 : 3);
        for (i = 0; i < 7 && buff[i]; i++) {
            vlog[nlog].text[i] = (unsigned char) buff[i];
        }
        vlog[nlog].text[i] = 0;
        vlog[nlog].in = state;
        vlog[nlog].out = out;
    }
    nlog++;
    return out;
}

static void *h1(spif_charptr_t b, void *s) { return handle(1, b, s); }
static void *h2(spif_charptr_t b, void *s) { return handle(2, b, s); }

static void
setup_contexts(void)
{
    spifconf_init_subsystem();
    spifconf_register_context(SPIF_CHARPTR("one"), h1);
    spifconf_register_context(SPIF_CHARPTR("two"), h2);
    nlog = 0;
}

/* put the context-state stack at depth d (symbolic inside [lo, hi]) with capacity cap; the two top
 * entries get symbolic context ids (1 or 2) and states */
static int
stack_at(int cap, int lo, int hi, void **top_state, void **below_state, int *top_ctx)
{
    int d = (int) V_RANGE(lo, hi);

    FREE(ctx_state);
    ctx_state = (ctx_state_t *) calloc((size_t) cap, sizeof(ctx_state_t));
    ctx_state_cnt = cap;
    ctx_state_idx = (unsigned char) d;
    *top_ctx = d ? (int) V_RANGE(1, 2) : 0;
    *top_state = (void *) (uintptr_t) V_RANGE(0, 1000);
    *below_state = (void *) (uintptr_t) V_RANGE(0, 1000);
    ctx_state[d].ctx_id = (unsigned char) *top_ctx;
    ctx_state[d].state = *top_state;
    if (d > 0) {
        ctx_state[d - 1].state = *below_state;
        ctx_state[d - 1].ctx_id = 1;
    }
    /* a current file so that file_peek_*() works */
    fstate_idx = 1;
    fstate[1].fp = VERIF_FP;
    fstate[1].path = SPIF_CHARPTR("f");
    fstate[1].line = 1;
    fstate[1].flags = 0;
    return d;
}

static void
in_bounds(void)
{
    CHECK("context stack index stays below its capacity", ctx_state_idx < ctx_state_cnt || ctx_state_cnt == 0);
    CHECK("context stack storage covers its capacity", OBJ_SIZE(ctx_state) >= sizeof(ctx_state_t) * ((size_t) ctx_state_idx + 1));
}

/* ---- C09 (a): one line from depth d.  kind: 0 "begin one", 1 "begin zz" (unknown name), 2 "end", 3 ordinary text, 4 comment */
static void
h_step(int cap, int lo, int hi, int kind)
{
    static const char *const lines[7] = { "begin one", "begin zz", "end", "  ab c ", "# x", "endian x", "beginner x" };
    /* first 7 characters the handler must see for the ordinary-text kinds (a word that merely starts with a keyword is text) */
    static const char *const seen[7] = { 0, 0, 0, "ab c", 0, "endian ", "beginne" };
    char buff[CONFIG_BUFF];
    void *top, *below;
    int topctx, d, i;

    setup_contexts();
    if (cap < 0) {
        /* the capacity class above -cap is whatever the code's own growth step makes of it: grow for real from
         * the full table, then take every depth from lo up to the last one an 8-bit index can push from */
        int g;

        (void) stack_at(-cap, -cap - 1, -cap - 1, &top, &below, &topctx);
        for (i = 0; lines[0][i]; i++) {
            buff[i] = lines[0][i];
        }
        buff[i] = 0;
        spifconf_parse_line(VERIF_FP, SPIF_CHARPTR(buff));
        g = (int) ctx_state_cnt;
        nlog = 0;
        if (hi > g - 1) {
            hi = g - 1;
        }
        if (lo > hi) {
            lo = hi;
        }
        cap = g;
    }
    d = stack_at(cap, lo, hi, &top, &below, &topctx);
    for (i = 0; lines[kind][i]; i++) {
        buff[i] = lines[kind][i];
    }
    buff[i] = 0;
    spifconf_parse_line(VERIF_FP, SPIF_CHARPTR(buff));
    switch (kind) {
        case 0:
        case 1:
            CHECK("a block opening pushes exactly one level", ctx_state_idx == d + 1);
            CHECK("exactly one begin call", nlog == (kind == 0 ? 1 : 0) || kind == 1);
            if (kind == 0) {
                CHECK("begin goes to the named context's handler with the enclosing state", nlog == 1 && vlog[0].ctx == 1 && vlog[0].kind == 1 && vlog[0].in == top);
                CHECK("the state begin returned is the new context's state", ctx_state[d + 1].ctx_id == 1 && ctx_state[d + 1].state == vlog[0].out);
            } else {
                CHECK("an unknown context name falls to the built-in null context", ctx_state[d + 1].ctx_id == 0 && nlog == 0);
            }
            CHECK("the enclosing context's state is untouched by a begin", ctx_state[d].state == top);
            break;
        case 2:
            if (d == 0) {
                CHECK("a surplus end is ignored", ctx_state_idx == 0 && nlog == 0 && ctx_state[0].state == top);
            } else {
                CHECK("a block closing pops exactly one level", ctx_state_idx == d - 1);
                CHECK("exactly one end call, to the innermost context's handler with its own state", nlog == 1 && vlog[0].ctx == topctx && vlog[0].kind == 2 && vlog[0].in == top);
                CHECK("the result of end becomes the enclosing context's state", ctx_state[d - 1].state == vlog[0].out);
            }
            break;
        case 3:
        case 5:
        case 6:
            CHECK("an ordinary line does not change the depth", ctx_state_idx == d);
            if (topctx) {
                CHECK("an ordinary line is delivered exactly once to the innermost context, with its state", nlog == 1 && vlog[0].ctx == topctx && vlog[0].kind == 3 && vlog[0].in == top);
                for (i = 0; nlog == 1 && i < 7; i++) {
                    CHECK("the line arrives with surrounding whitespace removed and nothing else changed", vlog[0].text[i] == (unsigned char) seen[kind][i]);
                    if (!seen[kind][i]) {
                        break;
                    }
                }
                CHECK("the state the handler returns is the state it receives next", ctx_state[d].state == vlog[0].out);
            } else {
                CHECK("in the null context no registered handler is called", nlog == 0);
            }
            break;
        case 4:
            CHECK("a comment is delivered to nobody and changes nothing", nlog == 0 && ctx_state_idx == d && ctx_state[d].state == top);
            break;
    }
    in_bounds();
    WITNESS();
}

/* ---- C09 (b/c): whole files through spifconf_parse over fopen/fgets/fclose stubs.
 * Each of up to 4 lines is one of: 0 comment, 1 "begin one", 2 "begin two", 3 "end", 4 " x ", 5 "begin zz" (code digits base 6). */
static const char *const fline[6] = { "# c\n", "begin one\n", "begin two\n", "end\n", " x \n", "begin zz\n" };

static void
h_file(int nlines, int code)
{
    int i, n = 0, k, c = code, depth = 0, stack[8], want_n = 0, j;
    int want_ctx[LOG_MAX], want_kind[LOG_MAX];
    const char *magic = "<verif-0.8.1>\n";
    spif_charptr_t r;

    setup_contexts();
    for (i = 0; magic[i]; i++) {
        verif_payload[n++] = (unsigned char) magic[i];
    }
    stack[0] = 0;
    for (k = 0; k < nlines; k++, c /= 6) {
        int kind = c % 6;

        for (i = 0; fline[kind][i]; i++) {
            verif_payload[n++] = (unsigned char) fline[kind][i];
        }
        /* the ideal reading */
        if (kind == 1 || kind == 2 || kind == 5) {
            int id = (kind == 5) ? 0 : kind;

            stack[++depth] = id;
            if (id) {
                want_ctx[want_n] = id; want_kind[want_n++] = 1;
            }
        } else if (kind == 3) {
            if (depth > 0) {
                if (stack[depth]) {
                    want_ctx[want_n] = stack[depth]; want_kind[want_n++] = 2;
                }
                depth--;
            }
        } else if (kind == 4) {
            if (stack[depth]) {
                want_ctx[want_n] = stack[depth]; want_kind[want_n++] = 3;
            }
        }
    }
    verif_payload_len = n;
    verif_payload_pos = 0;
    verif_eof_flag = 0;
    verif_io_active = 1;
    verif_fopens = verif_fcloses = 0;
    r = spifconf_parse(SPIF_CHARPTR("f"), (spif_charptr_t) NULL, (spif_charptr_t) NULL);
    verif_io_active = 0;
    CHECK("parse returns", r != NULL);
    CHECK("every handler call of the ideal reading, and no other", nlog == want_n);
    for (j = 0; j < want_n && j < nlog && j < LOG_MAX; j++) {
        CHECK("calls in file order to the innermost open context", vlog[j].ctx == want_ctx[j] && vlog[j].kind == want_kind[j]);
        if (want_kind[j] == 3) {
            CHECK("ordinary line delivered with whitespace removed", vlog[j].text[0] == 'x' && vlog[j].text[1] == 0);
        }
    }
    CHECK("every file opened is closed exactly once", verif_fopens == 1 && verif_fcloses == 1);
    CHECK("the file stack is back where it started", fstate_idx == 0);
    CHECK("for balanced input the context stack is back where it started (else at the remaining depth)", ctx_state_idx == depth);
    WITNESS();
}


/* ---- C09 (d): an %included file's lines appear at the point of inclusion.
 * main file: nmain lines (kinds as in h_file) with "%include inc" before line `pos`; included file: ninc lines. */
extern int verif_fcloses2;

static int
put_line(unsigned char *dst, int n, const char *text)
{
    int i;

    for (i = 0; text[i]; i++) {
        dst[n++] = (unsigned char) text[i];
    }
    return n;
}

static void
h_include(int nmain, int mcode, int pos, int ninc, int icode)
{
    int flat[8], nflat = 0, mk[4], ik[4], k, n = 0, n2 = 0, depth = 0, stack[10], want_n = 0, j;
    int want_ctx[LOG_MAX], want_kind[LOG_MAX];
    const char *magic = "<verif-0.8.1>\n";
    spif_charptr_t r;

    setup_contexts();
    for (k = 0; k < nmain; k++, mcode /= 6) {
        mk[k] = mcode % 6;
    }
    for (k = 0; k < ninc; k++, icode /= 6) {
        ik[k] = icode % 6;
    }
    n = put_line(verif_payload, 0, magic);
    for (k = 0; k <= nmain; k++) {
        if (k == pos) {
            n = put_line(verif_payload, n, "%include inc\n");
            for (j = 0; j < ninc; j++) {
                flat[nflat++] = ik[j];
            }
        }
        if (k < nmain) {
            n = put_line(verif_payload, n, fline[mk[k]]);
            flat[nflat++] = mk[k];
        }
    }
    n2 = put_line(verif_payload2, 0, magic);
    for (k = 0; k < ninc; k++) {
        n2 = put_line(verif_payload2, n2, fline[ik[k]]);
    }
    /* the ideal reading of the flattened line sequence */
    stack[0] = 0;
    for (k = 0; k < nflat; k++) {
        int kind = flat[k];

        if (kind == 1 || kind == 2 || kind == 5) {
            int id = (kind == 5) ? 0 : kind;

            stack[++depth] = id;
            if (id) {
                want_ctx[want_n] = id; want_kind[want_n++] = 1;
            }
        } else if (kind == 3) {
            if (depth > 0) {
                if (stack[depth]) {
                    want_ctx[want_n] = stack[depth]; want_kind[want_n++] = 2;
                }
                depth--;
            }
        } else if (kind == 4) {
            if (stack[depth]) {
                want_ctx[want_n] = stack[depth]; want_kind[want_n++] = 3;
            }
        }
    }
    verif_payload_len = n;  verif_payload_pos = 0;
    verif_payload2_len = n2; verif_payload2_pos = 0;
    verif_eof_flag = 0;
    verif_io_active = 1;
    verif_fopens = verif_fcloses = verif_fcloses2 = 0;
    r = spifconf_parse(SPIF_CHARPTR("f"), (spif_charptr_t) NULL, (spif_charptr_t) NULL);
    verif_io_active = 0;
    CHECK("parse returns", r != NULL);
    CHECK("every handler call of the ideal reading of main and included lines, and no other", nlog == want_n);
    for (j = 0; j < want_n && j < nlog && j < LOG_MAX; j++) {
        CHECK("an included file's lines are delivered at the point of inclusion, in order, to the innermost open context", vlog[j].ctx == want_ctx[j] && vlog[j].kind == want_kind[j]);
    }
    CHECK("both files were opened, each closed exactly once", verif_fopens == 2 && verif_fcloses == 2 && verif_fcloses2 == 1);
    CHECK("the file stack is back where it started", fstate_idx == 0);
    CHECK("the context stack is at the depth the flattened input leaves open", ctx_state_idx == depth);
    WITNESS();
}

/* ---- C11: table growth steps from an arbitrary valid (index, capacity) pair.
 * which: 0 context-state stack, 1 file-state stack, 2 context table, 3 builtin table */
static void
h_grow(int which, int cap, int lo, int hi)
{
    int d;

    spifconf_init_subsystem();
    if (cap < 0) {
        /* the capacity class above -cap: let the code's own growth step produce it (full table, one real
         * registration), then take every index from lo up to the last one an 8-bit index can register from */
        int g = 0;

        switch (which) {
            case 0:
                FREE(ctx_state);
                ctx_state = (ctx_state_t *) malloc(sizeof(ctx_state_t) * (size_t) -cap);
                ctx_state_cnt = -cap;
                ctx_state_idx = (unsigned char) (-cap - 1);
                (void) spifconf_register_context_state(1);
                g = (int) ctx_state_cnt;
                break;
            case 1:
                FREE(fstate);
                fstate = (fstate_t *) malloc(sizeof(fstate_t) * (size_t) -cap);
                fstate_cnt = -cap;
                fstate_idx = (unsigned char) (-cap - 1);
                (void) spifconf_register_fstate(VERIF_FP, SPIF_CHARPTR("p"), (spif_charptr_t) NULL, 1, 0);
                g = (int) fstate_cnt;
                break;
            case 2:
                FREE(context);
                context = (ctx_t *) malloc(sizeof(ctx_t) * (size_t) -cap);
                memset(context, 0, sizeof(ctx_t) * (size_t) -cap);
                ctx_cnt = -cap;
                ctx_idx = (unsigned char) (-cap - 1);
                (void) spifconf_register_context(SPIF_CHARPTR("n"), h1);
                g = (int) ctx_cnt;
                break;
            case 3:
                FREE(builtins);
                builtins = (spifconf_func_t *) malloc(sizeof(spifconf_func_t) * (size_t) -cap);
                memset(builtins, 0, sizeof(spifconf_func_t) * (size_t) -cap);
                builtin_cnt = -cap;
                builtin_idx = (unsigned char) (-cap - 1);
                (void) spifconf_register_builtin("n", builtin_version);
                g = (int) builtin_cnt;
                break;
        }
        if (hi > g - 1) {
            hi = g - 1;
        }
        if (lo > hi) {
            lo = hi;
        }
        cap = g;
    }
    d = (int) V_RANGE(lo, hi);
    switch (which) {
        case 0:
            FREE(ctx_state);
            ctx_state = (ctx_state_t *) malloc(sizeof(ctx_state_t) * (size_t) cap);
            ctx_state_cnt = cap;
            ctx_state_idx = (unsigned char) d;
            (void) spifconf_register_context_state(1);
            CHECK("push advances the index by one", ctx_state_idx == d + 1);
            CHECK("live index stays inside the table", OBJ_SIZE(ctx_state) >= sizeof(ctx_state_t) * ((size_t) ctx_state_idx + 1));
            break;
        case 1:
            FREE(fstate);
            fstate = (fstate_t *) malloc(sizeof(fstate_t) * (size_t) cap);
            fstate_cnt = cap;
            fstate_idx = (unsigned char) d;
            (void) spifconf_register_fstate(VERIF_FP, SPIF_CHARPTR("p"), (spif_charptr_t) NULL, 1, 0);
            CHECK("push advances the index by one", fstate_idx == d + 1);
            CHECK("live index stays inside the table", OBJ_SIZE(fstate) >= sizeof(fstate_t) * ((size_t) fstate_idx + 1));
            break;
        case 2:
            FREE(context);
            context = (ctx_t *) malloc(sizeof(ctx_t) * (size_t) cap);
            memset(context, 0, sizeof(ctx_t) * (size_t) cap);
            ctx_cnt = cap;
            ctx_idx = (unsigned char) d;
            (void) spifconf_register_context(SPIF_CHARPTR("n"), h1);
            CHECK("registration advances the index by one", ctx_idx == d + 1);
            CHECK("live index stays inside the table", OBJ_SIZE(context) >= sizeof(ctx_t) * ((size_t) ctx_idx + 1));
            break;
        case 3:
            FREE(builtins);
            builtins = (spifconf_func_t *) malloc(sizeof(spifconf_func_t) * (size_t) cap);
            memset(builtins, 0, sizeof(spifconf_func_t) * (size_t) cap);
            builtin_cnt = cap;
            builtin_idx = (unsigned char) d;
            (void) spifconf_register_builtin("n", builtin_version);
            CHECK("registration advances the index by one", builtin_idx == d + 1);
            CHECK("the table keeps room for its NULL-name sentinel", OBJ_SIZE(builtins) >= sizeof(spifconf_func_t) * ((size_t) builtin_idx + 1));
            break;
    }
    WITNESS();
}

/* ---- C11: spifconf_find_file with PATH_MAX scaled; lengths are shapes, bytes concrete (strlen-sized copies) */
static void
h_find_file(int flen, int dlen, int plen1, int plen2)
{
    char file[40], dir[40], path[80];
    int i, n = 0;
    spif_charptr_t r;

    for (i = 0; i < flen; i++) {
        file[i] = 'f';
    }
    file[flen] = 0;
    for (i = 0; i < dlen; i++) {
        dir[i] = 'd';
    }
    dir[dlen] = 0;
    for (i = 0; i < plen1; i++) {
        path[n++] = 'p';
    }
    if (plen2 >= 0) {
        path[n++] = ':';
        for (i = 0; i < plen2; i++) {
            path[n++] = (i == plen2 - 1) ? '/' : 'q';
        }
    }
    path[n] = 0;
    r = spifconf_find_file(SPIF_CHARPTR(file), dlen ? SPIF_CHARPTR(dir) : (spif_charptr_t) NULL, SPIF_CHARPTR(path));
    if (r) {
        CHECK("a found path is NUL-terminated inside the path buffer", strnlen((char *) r, PATH_MAX) < PATH_MAX);
    }
    WITNESS();
}

/* ---- C11: temp file protocol */
static void
h_temp_file(int tlen, int len)
{
    char tmpl[300];
    int i, fd;

    for (i = 0; i < tlen; i++) {
        tmpl[i] = 't';
    }
    tmpl[tlen] = 0;
    verif_umask_now = 022;
    verif_mkstemp_umask = verif_fchmod_mode = -1;
    fd = spiftool_temp_file(SPIF_CHARPTR(tmpl), (size_t) len);
    CHECK("mkstemp() runs with umask 077 in force", verif_mkstemp_umask == 077);
    CHECK("the caller's umask is restored", verif_umask_now == 022);
    if (fd >= 0) {
        CHECK("a created temp file is set to mode 0600", verif_fchmod_mode == 0600);
        CHECK("the name handed back is terminated within the caller's length", strnlen(tmpl, (size_t) len) < (size_t) len);
    }
    WITNESS();
}

/* ---- C11: lifecycle: init, use, free - twice */
static void
h_lifecycle(void)
{
    int cycle;

    for (cycle = 0; cycle < 2; cycle++) {
        char *a = (char *) malloc(2), *b = (char *) malloc(2);

        spifconf_init_subsystem();
        spifconf_register_context(SPIF_CHARPTR("one"), h1);
        a[0] = 'k'; a[1] = 0;
        b[0] = 'v'; b[1] = 0;
        spifconf_put_var(SPIF_CHARPTR(a), SPIF_CHARPTR(b));
        CHECK("variable readable during the cycle", spifconf_get_var(SPIF_CHARPTR("k")) != NULL);
        spifconf_free_subsystem();
        CHECK("freeing leaves no variable behind for a later cycle to trip over", spifconf_get_var(SPIF_CHARPTR("k")) == NULL);
    }
    WITNESS();
}


/* ---- C11: a new cycle starts from whatever the previous one left in the subsystem's static indices and
 * capacities (all symbolic here: any number of contexts left open, files on the stack, registrations);
 * initialisation must not depend on it */
static void
h_reinit(void)
{
    unsigned a_ctx, a_state, a_file, a_builtin;

    spifconf_init_subsystem();
    a_ctx = ctx_idx; a_state = ctx_state_idx; a_file = fstate_idx; a_builtin = builtin_idx;
    spifconf_free_subsystem();
    ctx_idx = V_BYTE(); ctx_state_idx = V_BYTE(); fstate_idx = V_BYTE(); builtin_idx = V_BYTE();
    ctx_cnt = (unsigned short) V_RANGE(0, 65535); ctx_state_cnt = (unsigned short) V_RANGE(0, 65535);
    fstate_cnt = (unsigned short) V_RANGE(0, 65535); builtin_cnt = (unsigned short) V_RANGE(0, 65535);
    spifconf_init_subsystem();
    CHECK("a new cycle starts with an empty context stack whatever the last one left", ctx_state_idx == a_state);
    CHECK("a new cycle starts with an empty file stack whatever the last one left", fstate_idx == a_file);
    CHECK("a new cycle starts with the same registered contexts as the first", ctx_idx == a_ctx);
    CHECK("a new cycle starts with the same registered built-ins as the first", builtin_idx == a_builtin);
    CHECK("context stack: index below capacity, storage covers capacity", ctx_state_idx < ctx_state_cnt && OBJ_SIZE(ctx_state) >= sizeof(ctx_state_t) * (size_t) ctx_state_cnt);
    CHECK("file stack: index below capacity, storage covers capacity", fstate_idx < fstate_cnt && OBJ_SIZE(fstate) >= sizeof(fstate_t) * (size_t) fstate_cnt);
    CHECK("context table: index below capacity, storage covers capacity", ctx_idx < ctx_cnt && OBJ_SIZE(context) >= sizeof(ctx_t) * (size_t) ctx_cnt);
    CHECK("built-in table: index below capacity, storage covers capacity", builtin_idx < builtin_cnt && OBJ_SIZE(builtins) >= sizeof(spifconf_func_t) * (size_t) builtin_cnt);
    spifconf_free_subsystem();
    WITNESS();
}

/* ---- C11: arbitrary bytes as a config line: the line classifier up to the hand-over to the expander.
 * Lines are concrete strings from a small adversarial set; the spawn oracle is on. */
static const char *const evil[] = {
    "", "\n", "b", "e", "begin", "begin ", "end", "end x", "%", "%i", "%include", "%include ", "%preproc", "%x y", "\001", "\002", " ", "\t\n", "<x>", "#", "be", "en", "begin  ", 0
};

static void
h_line(int which, int depth)
{
    char buff[CONFIG_BUFF];
    void *top, *below;
    int topctx, i;

    setup_contexts();
    (void) stack_at(20, depth, depth, &top, &below, &topctx);
    for (i = 0; evil[which][i]; i++) {
        buff[i] = evil[which][i];
    }
    buff[i] = 0;
    verif_spawn_allowed = 0;
    verif_payload_len = 0;
    verif_payload_pos = 0;
    verif_io_active = 1;
    spifconf_parse_line(VERIF_FP, SPIF_CHARPTR(buff));
    verif_io_active = 0;
    CHECK("no process was spawned", verif_spawns == 0);
    in_bounds();
    WITNESS();
}

#include VERIF_ENTRIES
