/* C06: every allocation is released exactly once.  Each scenario plays a correct caller: it deletes
 * exactly what the API hands it and its own argument objects, then the container; CBMC's
 * --memory-leak-check (a nondeterministically chosen allocation must have been freed), the built-in
 * double-free / freed-object checks and an element counter decide the rest. */
#include "containers.h"

static spif_obj_t
mk_owned(int cls, int kind, int n, seq *s)
{
    spif_obj_t c = new_container(cls, kind);
    int i;

    s->n = n;
    for (i = 0; i < n; i++) {
        int v = 1 + 2 * i;

        s->v[i] = v;
        if (kind == 2) {
            spif_objpair_t p = spif_objpair_new();

            p->key = (spif_obj_t) vint_new_v(v);
            p->value = (spif_obj_t) vint_new_v(v + 10);
            s->o[i] = (spif_obj_t) p;
        } else {
            s->o[i] = (spif_obj_t) vint_new_v(v);
        }
    }
    fill_container(cls, c, s);
    return c;
}

static void
end_scenario(void)
{
    CHECK("every element the scenario created was deleted exactly once", vint_live == 0);
    WITNESS();
}

/* delete a non-empty container (list: with a NULL placeholder in the middle when ph) */
static void
h_del(int cls, int kind, int n, int ph)
{
    seq s;
    spif_obj_t c;

    if (ph && kind == 0 && n >= 2) {
        c = mk_list(cls, 0, n, 2, &s);          /* placeholder at slot 1 */
    } else {
        c = mk_owned(cls, kind, n, &s);
    }
    CHECK("del returns TRUE", SPIF_OBJ_DEL(c) == TRUE);
    end_scenario();
}

/* done() leaves the object empty and reusable */
static void
h_done_reuse(int cls, int kind, int n)
{
    seq s;
    spif_obj_t c = mk_owned(cls, kind, n, &s), got[MAXN + 2];

    CHECK("done returns TRUE", SPIF_OBJ_CALL_METHOD(c, done)(c) != NULL);
    CHECK("done() released the elements", vint_live == 0);
    CHECK("done() leaves the container empty", rep_extract(cls, c, got) == 0);
    if (kind == 0) {
        SPIF_LIST_APPEND(SPIF_LIST(c), (spif_obj_t) vint_new_v(4));
    } else if (kind == 1) {
        SPIF_VECTOR_INSERT(SPIF_VECTOR(c), (spif_obj_t) vint_new_v(4));
    } else {
        spif_obj_t k = (spif_obj_t) vint_new_v(4), v = (spif_obj_t) vint_new_v(5);

        SPIF_MAP_SET(SPIF_MAP(c), k, v);
        SPIF_OBJ_DEL(k);
        SPIF_OBJ_DEL(v);
    }
    CHECK("reusable after done()", rep_extract(cls, c, got) == 1);
    SPIF_OBJ_DEL(c);
    end_scenario();
}

/* the container never frees what it has handed back.  For lists (removal by position) the container is
 * then deleted and the leak check runs; for by-value removal (vectors, maps) deleting the container after
 * the search exceeds the memory cap, so the transfer is decided on deletion counters instead, and the
 * deletion of whatever state remains is the h_del obligation for that state (inductive split). */
static void
h_remove(int cls, int kind, int n, int which)
{
    seq s;
    spif_obj_t c = mk_owned(cls, kind, n, &s), r, probe;
    int live0 = vint_live;

    if (kind == 0) {
        r = SPIF_LIST_REMOVE_AT(SPIF_LIST(c), which);
    } else {
        probe = (spif_obj_t) vint_new_v(s.v[which]);
        r = (kind == 1) ? SPIF_VECTOR_REMOVE(SPIF_VECTOR(c), probe) : SPIF_MAP_REMOVE(SPIF_MAP(c), probe);
        CHECK("removal deleted nothing: the removed object is handed over, not freed", vint_dels == 0 && vint_live == live0 + 1);
        SPIF_OBJ_DEL(probe);
    }
    CHECK("the removed element / pair is handed back", r == s.o[which]);
    {
        /* the container must not keep referring to the node it has just freed (a stale head, tail or back
         * link is an allocation the container still treats as its own): its structure is exactly the rest */
        seq rest;
        int i, k = 0;

        for (i = 0; i < s.n; i++) {
            if (i != which) {
                rest.v[k] = s.v[i];
                rest.o[k] = s.o[i];
                k++;
            }
        }
        rest.n = k;
        check_rep(cls, c, &rest);
    }
    if (kind == 0) {
        SPIF_OBJ_DEL(c);                  /* container first: it must not touch r any more */
    }
    if (r) {
        if (kind == 2) {
            CHECK("handed-back pair is alive", VINT(SPIF_OBJPAIR(r)->key)->v == s.v[which]);
        } else {
            CHECK("handed-back element is alive", VINT(r)->v == s.v[which]);
        }
        SPIF_OBJ_DEL(r);
    }
    if (kind == 0) {
        end_scenario();
    } else {
        CHECK("exactly the handed-back object has left the container", vint_live == live0 - ((kind == 2) ? 2 : 1));
        WITNESS();
    }
}

static void
h_dup(int cls, int kind, int n)
{
    seq s;
    spif_obj_t c = mk_owned(cls, kind, n, &s), d = SPIF_OBJ_DUP(c);

    SPIF_OBJ_DEL(c);
    if (d) {
        SPIF_OBJ_DEL(d);
    }
    end_scenario();
}

/* what: 0 to_array, 1 iterator, 2 get_keys, 3 get_values, 4 get_pairs (2..4 maps only) */
static void
h_views(int cls, int kind, int n, int what)
{
    seq s;
    spif_obj_t c = mk_owned(cls, kind, n, &s);
    spif_obj_t *arr;
    spif_iterator_t it;
    spif_list_t l;

    switch (what) {
        case 0:
            arr = (kind == 0) ? SPIF_LIST_TO_ARRAY(SPIF_LIST(c)) : SPIF_VECTOR_TO_ARRAY(SPIF_VECTOR(c));
            if (arr) {
                free(arr);                  /* the array is the caller's, the elements are not */
            }
            break;
        case 1:
            it = (kind == 0) ? SPIF_LIST_ITERATOR(SPIF_LIST(c)) : ((kind == 1) ? SPIF_VECTOR_ITERATOR(SPIF_VECTOR(c)) : SPIF_MAP_ITERATOR(SPIF_MAP(c)));
            if (it) {
                if (n > 0) {
                    (void) SPIF_ITERATOR_NEXT(it);
                }
                SPIF_OBJ_DEL(it);           /* deleting an iterator never touches the list */
            }
            break;
        default:
            l = (what == 2) ? SPIF_MAP_GET_KEYS(SPIF_MAP(c), (spif_list_t) NULL)
                : ((what == 3) ? SPIF_MAP_GET_VALUES(SPIF_MAP(c), (spif_list_t) NULL) : SPIF_MAP_GET_PAIRS(SPIF_MAP(c), (spif_list_t) NULL));
            if (l) {
                SPIF_LIST_DEL(l);           /* copies: the caller's to delete */
            }
            break;
    }
    CHECK("container still holds its elements", vint_live >= n);
    SPIF_OBJ_DEL(c);
    end_scenario();
}

/* overwriting a map value frees the old value once and keeps neither of the caller's objects
 * (decided on deletion counters; deleting the remaining state is the h_del obligation) */
static void
h_set(int cls, int n, int existing)
{
    seq s;
    spif_obj_t c = mk_owned(cls, 2, n, &s), k, v;
    int live0 = vint_live;

    k = (spif_obj_t) vint_new_v(existing ? s.v[0] : 100);
    v = (spif_obj_t) vint_new_v(7);
    (void) SPIF_MAP_SET(SPIF_MAP(c), k, v);
    if (existing) {
        CHECK("replacing a value deletes the old value exactly once and stores a copy", vint_dels == 1 && vint_live == live0 + 2);
    } else {
        CHECK("a new entry stores copies of key and value and deletes nothing", vint_dels == 0 && vint_live == live0 + 4);
    }
    SPIF_OBJ_DEL(k);                      /* the caller's own objects: the map must not have kept or freed them */
    SPIF_OBJ_DEL(v);
    CHECK("the caller's key and value were still the caller's to delete", vint_dels == (existing ? 3 : 2));
    WITNESS();
}

/* new(); del() for every class: catches members a constructor leaves uninitialised */
static void
h_new_del(int which)
{
    spif_obj_t o = NULL;

    switch (which) {
        case 0: o = SPIF_OBJ(spif_str_new()); break;
        case 1: o = SPIF_OBJ(spif_mbuff_new()); break;
        case 2: o = SPIF_OBJ(spif_objpair_new()); break;
        case 3: o = SPIF_OBJ(spif_tok_new()); break;
        case 4: o = SPIF_OBJ(spif_url_new()); break;
        case 5: o = SPIF_OBJ(spif_obj_new()); break;
        case 6: o = SPIF_OBJ(spif_regexp_new()); break;
        default: o = new_container((which - 10) / 3, (which - 10) % 3); break;
    }
    CHECK("object created", o != NULL);
    if (o) {
        CHECK("del returns TRUE", SPIF_OBJ_DEL(o) == TRUE);
    }
    end_scenario();
}

/* strings, tokenizers, URLs: substrings, re-evaluation, property setters */
static void
h_misc(int which)
{
    spif_str_t s, t;
    spif_tok_t tok;
    spif_url_t u;
    spif_objpair_t p;
    spif_charptr_t c;

    switch (which) {
        case 0:
            s = spif_str_new_from_ptr(SPIF_CHARPTR("abc"));
            t = spif_str_substr(s, 1, 2);
            c = spif_str_substr_to_ptr(s, 0, 1);
            spif_str_del(s);
            if (t) {
                spif_str_del(t);
            }
            if (c) {
                free(c);
            }
            break;
        case 1:
            tok = spif_tok_new_from_ptr(SPIF_CHARPTR("a b"));
            spif_tok_eval(tok);
            spif_tok_eval(tok);             /* re-evaluation replaces the token list */
            spif_tok_del(tok);
            break;
        case 2:
            tok = spif_tok_new_from_ptr(SPIF_CHARPTR("a,b"));
            spif_tok_set_sep(tok, spif_str_new_from_ptr(SPIF_CHARPTR(",")));
            spif_tok_set_sep(tok, spif_str_new_from_ptr(SPIF_CHARPTR(";")));   /* setter deletes the previous object */
            spif_tok_eval(tok);
            spif_tok_del(tok);
            break;
        case 3:
            u = spif_url_new_from_ptr(SPIF_CHARPTR("//u:p@h:1/x?q"));
            spif_url_set_host(u, spif_str_new_from_ptr(SPIF_CHARPTR("g")));
            spif_url_unparse(u);
            spif_url_done(u);
            spif_url_del(u);
            break;
        case 4:
            p = spif_objpair_new_from_both((spif_obj_t) (s = spif_str_new_from_ptr(SPIF_CHARPTR("k"))), (spif_obj_t) (t = spif_str_new_from_ptr(SPIF_CHARPTR("v"))));
            spif_objpair_set_value(p, SPIF_OBJ(spif_str_new_from_ptr(SPIF_CHARPTR("w"))));
            spif_str_del(s);
            spif_str_del(t);
            spif_objpair_del(p);
            break;
        case 5:
            s = spif_str_new_from_ptr(SPIF_CHARPTR("ab"));
            spif_str_done(s);
            CHECK("done() leaves an empty, reusable string", s->s == NULL && s->len == 0);
            spif_str_append_from_ptr(s, SPIF_CHARPTR("c"));
            spif_str_del(s);
            break;
    }
    end_scenario();
}


/* URLs: every parse builds up to seven member strings, some of them twice (an explicit but empty port and the
 * scheme's default port, a user split at the password separator); create, copy, delete.  Name-service
 * lookups succeed or fail symbolically (stubs/env_net.c). */
static const char *const url_texts[] = {
    "http://h:/p", "http::", "//h:", "a://u:@h:/", "a://u:p@h:7/x?q", "a:/p", "//h", "h:9", "a://@h", "a://h?q", "?q", "", "a://u@h:/?", 0
};

static void
h_url(int which)
{
    spif_url_t u = spif_url_new_from_ptr(SPIF_CHARPTR(url_texts[which])), d;

    if (u) {
        d = spif_url_dup(u);
        spif_url_del(u);
        if (d) {
            spif_url_del(d);
        }
    }
    end_scenario();
}

#include VERIF_ENTRIES
