/* C15 (library balance): with tracking compiled in (-DDEBUG=5) and active (runtime level 5), the
 * tracker's table is empty again once every object a scenario created has been deleted. */
#include "mem.c"
#include "common.h"

static void
start(void)
{
    malloc_rec.cnt = 0;
    malloc_rec.ptrs = NULL;
    libast_debug_level = DEBUG_MEM;
}

static void
finish_balance(void)
{
    CHECK("tracker reports an empty table once every object has been deleted", malloc_rec.cnt == 0);
    WITNESS();
}

static spif_str_t
sym_str(int len)
{
    unsigned char b[8];
    int i;

    /* concrete text: lengths feed strlen()-sized allocations and the tracker's block moves, and the
     * accounting does not depend on contents; the runtime heap stays nondeterministic */
    for (i = 0; i < len; i++) {
        b[i] = (unsigned char) ('a' + i);
    }
    b[len] = 0;
    return spif_str_new_from_ptr((spif_charptr_t) b);
}

static void
h_str(int len)
{
    spif_str_t s, d;

    start();
    s = sym_str(len);
    spif_str_append_from_ptr(s, SPIF_CHARPTR("xy"));
    spif_str_append_char(s, 'z');
    d = spif_str_dup(s);
    spif_str_trim(d);
    CHECK("live objects are tracked", malloc_rec.cnt >= 2);
    spif_str_del(s);
    spif_str_del(d);
    finish_balance();
}

static void
h_mbuff(int len)
{
    spif_mbuff_t m, d;
    unsigned char b[8];

    start();
    memset(b, 7, sizeof(b));
    m = spif_mbuff_new_from_ptr(b, len);
    spif_mbuff_append_from_ptr(m, (spif_byteptr_t) "xy", 2);
    d = spif_mbuff_dup(m);
    spif_mbuff_del(m);
    spif_mbuff_del(d);
    finish_balance();
}

static void
h_pair(void)
{
    spif_str_t k, v;
    spif_objpair_t p;

    start();
    k = sym_str(1);
    v = sym_str(2);
    p = spif_objpair_new_from_both(SPIF_OBJ(k), SPIF_OBJ(v));
    spif_str_del(k);
    spif_str_del(v);
    spif_objpair_del(p);
    finish_balance();
}

/* cls: 0 array, 1 linked_list, 2 dlinked_list */
static void
h_list(int cls)
{
    spif_list_t l;
    spif_obj_t r;

    start();
    l = (cls == 0) ? SPIF_LIST_NEW(array) : ((cls == 1) ? SPIF_LIST_NEW(linked_list) : SPIF_LIST_NEW(dlinked_list));
    SPIF_LIST_APPEND(l, SPIF_OBJ(sym_str(1)));
    SPIF_LIST_APPEND(l, SPIF_OBJ(sym_str(2)));
    SPIF_LIST_PREPEND(l, SPIF_OBJ(sym_str(0)));
    r = SPIF_LIST_REMOVE_AT(l, 1);
    CHECK("remove_at hands the element back", r != NULL);
    if (r) {
        SPIF_OBJ_DEL(r);
    }
    SPIF_LIST_DEL(l);
    finish_balance();
}

#include VERIF_ENTRIES
