/* Runtime shared by every harness family (both CBMC and native replay). */
#include "common.h"

long verif_in_v;
int verif_exited;
int verif_fatal_calls;
int verif_out_calls;
int verif_fatal_forbidden;     /* set by a harness while the fatal path must not be taken */

#ifdef REPLAY
#include <stdio.h>
#include <unistd.h>

static long verif_inputs[65536];
static int verif_nin, verif_pos;

void
verif_load_inputs(const char *path)
{
    FILE *fp = fopen(path, "r");
    long v;

    if (!fp) {
        fprintf(stderr, "replay: cannot open %s\n", path);
        _exit(4);
    }
    while (verif_nin < 65536 && fscanf(fp, "%ld", &v) == 1) {
        verif_inputs[verif_nin++] = v;
    }
    fclose(fp);
}

long
verif_next_input(void)
{
    if (verif_pos < verif_nin) {
        return verif_inputs[verif_pos++];
    }
    /* the trace stopped before this draw: it is not constrained by the counterexample */
    return 0;
}

void
verif_check_failed(const char *label)
{
    fprintf(stderr, "REPLAY-CHECK-FAILED: %s\n", label);
    fflush(stderr);
    _exit(10);
}

void
verif_infeasible(const char *what)
{
    fprintf(stderr, "REPLAY-INFEASIBLE: %s\n", what);
    fflush(stderr);
    _exit(3);
}
#endif
