/* C15: the debug memory tracker mirrors the live allocation set (built with -DDEBUG=5). */
#include "mem.c"                 /* the real translation unit: its static malloc_rec is the subject */
#include "common.h"

#define MAXR 4
typedef struct {
    int n;
    void *ptr[MAXR + 1];
    size_t size[MAXR + 1];
    char file[MAXR + 1][SPIFMEM_FNAME_LEN + 1];
    unsigned long line[MAXR + 1];
} table;

static const char longname[] = "abcdefghijklmnopqrstuvwxyz";   /* file names are prefixes of this */
static char fname[32];

static const char *
mk_fname(int flen)
{
    int i;

    for (i = 0; i < flen; i++) {
        fname[i] = longname[i];
    }
    fname[flen] = 0;
    return fname;
}

/* arbitrary valid table: n records, distinct live blocks, symbolic sizes-as-recorded/lines/names */
static void
mk_table(int n, table *t)
{
    int i, j;

    t->n = n;
    malloc_rec.cnt = (size_t) n;
    malloc_rec.ptrs = (spifmem_ptr_t *) malloc(sizeof(spifmem_ptr_t) * (size_t) (n ? n : 1));
    for (i = 0; i < n; i++) {
        t->ptr[i] = malloc(4);
        t->size[i] = (size_t) V_RANGE(0, 100);
        t->line[i] = (unsigned long) V_RANGE(0, 100000);
        for (j = 0; j < SPIFMEM_FNAME_LEN; j++) {
            t->file[i][j] = (char) V_RANGE('a', 'c');
        }
        t->file[i][SPIFMEM_FNAME_LEN] = 0;
        malloc_rec.ptrs[i].ptr = t->ptr[i];
        malloc_rec.ptrs[i].size = t->size[i];
        malloc_rec.ptrs[i].line = (spif_uint32_t) t->line[i];
        memcpy(malloc_rec.ptrs[i].file, t->file[i], SPIFMEM_FNAME_LEN + 1);
    }
}

static void
t_add(table *t, void *p, size_t size, const char *file, unsigned long line)
{
    int j;

    t->ptr[t->n] = p;
    t->size[t->n] = size;
    t->line[t->n] = line;
    for (j = 0; j < SPIFMEM_FNAME_LEN && file[j]; j++) {
        t->file[t->n][j] = file[j];
    }
    t->file[t->n][j] = 0;
    t->n++;
}

static void
t_del(table *t, int k)
{
    for (; k + 1 < t->n; k++) {
        t->ptr[k] = t->ptr[k + 1];
        t->size[k] = t->size[k + 1];
        t->line[k] = t->line[k + 1];
        memcpy(t->file[k], t->file[k + 1], SPIFMEM_FNAME_LEN + 1);
    }
    t->n--;
}

/* the tracker's table holds exactly the records of t (as a set keyed by address) */
static void
check_table(const table *t)
{
    int i, k, j, hits;

    CHECK("one record per live block and no others (count)", malloc_rec.cnt == (size_t) t->n);
    if (t->n > 0) {
        CHECK("table storage present", malloc_rec.ptrs != NULL);
        CHECK("table storage large enough", malloc_rec.ptrs == NULL || OBJ_SIZE(malloc_rec.ptrs) >= sizeof(spifmem_ptr_t) * (size_t) t->n);
    }
    for (i = 0; i < t->n && malloc_rec.ptrs && malloc_rec.cnt == (size_t) t->n; i++) {
        hits = 0;
        for (k = 0; k < t->n; k++) {
            if (malloc_rec.ptrs[k].ptr == t->ptr[i]) {
                hits++;
                CHECK("record keeps the most recently requested size", malloc_rec.ptrs[k].size == t->size[i]);
                CHECK("record keeps the line of the last (re)allocation", malloc_rec.ptrs[k].line == (spif_uint32_t) t->line[i]);
                for (j = 0; j <= SPIFMEM_FNAME_LEN; j++) {
                    CHECK("record keeps the file name truncated to 20 characters", malloc_rec.ptrs[k].file[j] == t->file[i][j]);
                    if (!t->file[i][j]) {
                        break;
                    }
                }
            }
        }
        CHECK("each live block has exactly one record with its current address", hits == 1);
    }
    WITNESS();
}

/* runtime level: any value on the chosen side of the memory-debugging threshold (the side is a shape
 * so that the expected table size stays concrete for symex; the value itself is symbolic) */
static void
set_level(int active)
{
    libast_debug_level = (unsigned int) V_RANGE(0, 0xffffffffL);
    ASSUME((libast_debug_level >= DEBUG_MEM) == (active != 0));
}

/* op: 0 malloc, 1 calloc, 2 strdup */
static void
h_alloc(int n, int op, int flen, int active)
{
    table t;
    const char *file = mk_fname(flen);
    unsigned long line = (unsigned long) V_RANGE(0, 100000);
    void *p = NULL;
    size_t size = 0;

    mk_table(n, &t);
    set_level(active);
    switch (op) {
        case 0: size = 3; p = spifmem_malloc(file, line, size); break;
        case 1: size = 2 * sizeof(long); p = spifmem_calloc(file, line, 2, sizeof(long)); break;
        case 2: size = 3; p = spifmem_strdup("v", file, line, "ab"); break;
    }
    CHECK("allocation returned a block", p != NULL);
    CHECK("block has the requested size", p == NULL || OBJ_SIZE(p) == size);
    if (active) {
        t_add(&t, p, size, file, line);
    }
    check_table(&t);
}

/* which: -1 NULL, 0..n-1 the k-th tracked block, n an untracked live block; size 0 or 5 */
static void
h_realloc(int n, int which, int size, int flen, int active)
{
    table t;
    const char *file = mk_fname(flen);
    unsigned long line = (unsigned long) V_RANGE(0, 100000);
    void *old, *p;

    mk_table(n, &t);
    set_level(active);
    old = (which < 0) ? NULL : ((which < n) ? t.ptr[which] : malloc(4));
    p = spifmem_realloc("v", file, line, old, (size_t) size);
    if (size == 0) {
        CHECK("realloc to size 0 frees and yields NULL", p == NULL);
    } else {
        CHECK("realloc returned a block", p != NULL);
    }
    if (active) {
        if (which < 0) {
            if (size > 0) {
                t_add(&t, p, (size_t) size, file, line);          /* realloc of NULL allocates */
            }
        } else if (which < n) {
            if (size == 0) {
                t_del(&t, which);                                  /* realloc to 0 frees */
            } else {
                int j;

                t.ptr[which] = p;
                t.size[which] = (size_t) size;
                t.line[which] = line;
                for (j = 0; j < SPIFMEM_FNAME_LEN && file[j]; j++) {
                    t.file[which][j] = file[j];
                }
                t.file[which][j] = 0;
            }
        }                                                          /* unknown pointer: table unchanged */
    }
    check_table(&t);
}

static void
h_free(int n, int which, int active)
{
    table t;
    void *old;

    mk_table(n, &t);
    set_level(active);
    old = (which < 0) ? NULL : ((which < n) ? t.ptr[which] : malloc(4));
    spifmem_free("v", "f.c", 7, old);
    if (active && which >= 0 && which < n) {
        t_del(&t, which);
    }
    check_table(&t);
}

/* ---- macro equivalence: tracking compiled in (this TU, runtime level below DEBUG_MEM) vs compiled out */
void *lo_malloc(size_t s);
void *lo_realloc(void *m, size_t s);
void *lo_calloc(size_t n);
char *lo_strdup(const char *s);
void *lo_free(void *p);

static void
h_macros(int memnull, int size, int level)
{
    void *a, *b, *ra, *rb;
    unsigned char *ca, *cb;

    malloc_rec.cnt = 0;
    malloc_rec.ptrs = NULL;
    libast_debug_level = (unsigned int) level;     /* below DEBUG_MEM: concrete, or symex walks the tracking paths too */
    a = memnull ? NULL : malloc(2);
    b = memnull ? NULL : malloc(2);
    if (!memnull) {
        ((unsigned char *) a)[0] = ((unsigned char *) b)[0] = V_BYTE();
        ((unsigned char *) a)[1] = ((unsigned char *) b)[1] = 7;
    }
    ra = REALLOC(a, (size_t) size);             /* tracking compiled in */
    rb = lo_realloc(b, (size_t) size);          /* tracking compiled out */
    CHECK("REALLOC: NULL result in the same cases", (ra == NULL) == (rb == NULL));
    if (ra && rb) {
        CHECK("REALLOC: block of the requested size either way", OBJ_SIZE(ra) == (size_t) size && OBJ_SIZE(rb) == (size_t) size);
        if (!memnull && size >= 2) {
            CHECK("REALLOC: contents carried over either way", ((unsigned char *) ra)[0] == ((unsigned char *) rb)[0] && ((unsigned char *) ra)[1] == 7);
        }
    }
    CHECK("tracking table untouched below the memory-debugging level", malloc_rec.cnt == 0);
    ca = (unsigned char *) MALLOC(3);
    cb = (unsigned char *) lo_malloc(3);
    CHECK("MALLOC returns a block either way", ca != NULL && cb != NULL);
    FREE(ca);
    CHECK("FREE nulls its argument (tracking compiled in)", ca == NULL);
    CHECK("FREE nulls its argument (tracking compiled out)", lo_free(cb) == NULL);
    ca = (unsigned char *) CALLOC(long, 2);
    cb = (unsigned char *) lo_calloc(2);
    CHECK("CALLOC zero-fills either way", ca && cb && ca[0] == 0 && cb[0] == 0 && ca[sizeof(long) * 2 - 1] == 0 && cb[sizeof(long) * 2 - 1] == 0);
    WITNESS();
}

#include VERIF_ENTRIES
