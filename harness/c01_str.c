/* C01: str / ustr are faithful character-sequence values.
 *
 * One inductive step per operation from an ARBITRARY state satisfying the
 * representation invariant (built directly, contents symbolic), compared with an
 * ideal sequence model on a plain array, plus the constructors as base cases.
 * Compile with -DUSTR for the ustr class.
 */
#ifdef HAVE_CONFIG_H
# include <config.h>
#endif
#include <libast_internal.h>
#include "common.h"

#ifdef USTR
# define F(x)   spif_ustr_##x
# define STR_T  spif_ustr_t
# define IDX_T  spif_ustridx_t
# define STRUCT struct spif_ustr_t_struct
#else
# define F(x)   spif_str_##x
# define STR_T  spif_str_t
# define IDX_T  spif_stridx_t
# define STRUCT struct spif_str_t_struct
#endif

#define MAXT 12

typedef struct {
    int len;
    unsigned char t[MAXT + 1];
} model;

static int
ref_isspace(unsigned char c)
{
    return c == ' ' || (c >= '\t' && c <= '\r');
}

static unsigned char
ref_lower(unsigned char c)
{
    return (c >= 'A' && c <= 'Z') ? (unsigned char) (c + 32) : c;
}

static unsigned char
ref_upper(unsigned char c)
{
    return (c >= 'a' && c <= 'z') ? (unsigned char) (c - 32) : c;
}

static int
sgn(int x)
{
    return (x > 0) - (x < 0);
}

/* ---- arbitrary valid state: len characters (symbolic, non-NUL), capacity len+1+slack in an
 * allocation of exactly that many bytes; slack == -1 (only with len == 0) is the legal empty
 * state (NULL,0,0).  Bytes beyond the terminator stay uninitialised (= nondeterministic). */
static STR_T
mk_state(int len, int slack, model *m)
{
    STR_T s = F(new)();
    int i;

    m->len = len;
    for (i = 0; i < len; i++) {
        m->t[i] = V_CHAR();
    }
    m->t[len] = 0;
    if (slack < 0) {
        return s;                 /* (NULL, 0, 0) as left by the constructor */
    }
    s->size = len + 1 + slack;
    s->len = len;
    s->s = (spif_charptr_t) malloc((size_t) s->size);
    for (i = 0; i <= len; i++) {
        s->s[i] = (spif_char_t) m->t[i];
    }
    return s;
}

/* a C string argument of n symbolic characters in an exact-size object */
static unsigned char *
mk_cstr(int n, model *m)
{
    int i;

    m->len = n;
    for (i = 0; i < n; i++) {
        m->t[i] = V_CHAR();
    }
    m->t[n] = 0;
    return verif_tight_text(m->t, n);
}

/* representation invariant + value equals the model */
static void
check_state(STR_T s, const model *m)
{
    int i;

    CHECK("object survives the operation", s != NULL);
    if (!s) {
        return;
    }
    CHECK("reported length equals the ideal sequence's", F(get_len)(s) == m->len);
    if (s->s == NULL) {
        CHECK("no buffer only in the empty state (NULL,0,0)", s->len == 0 && s->size == 0);
        CHECK("empty state only for the empty text", m->len == 0);
        return;
    }
    CHECK("reported capacity greater than length", F(get_size)(s) > F(get_len)(s));
    CHECK("allocation at least as large as reported capacity", (IDX_T) OBJ_SIZE(s->s) >= s->size);
    CHECK("text pointer is the start of its buffer", IS_ALLOC_START(s->s));
    for (i = 0; i < m->len && i < MAXT; i++) {
        CHECK("text equals the ideal sequence", (unsigned char) s->s[i] == m->t[i]);
    }
    CHECK("NUL-terminated exactly at its length", s->s[m->len] == 0);
}

static void
finish(STR_T s)
{
    WITNESS();
    if (s) {
        F(del)(s);
    }
}

/* ======================================================================= mutators */

static void
h_append(int len, int slack, int olen, int oslack)
{
    model m, om;
    STR_T s = mk_state(len, slack, &m), o = mk_state(olen, oslack, &om);
    int i;

    CHECK("append returns TRUE", F(append)(s, o) == TRUE);
    for (i = 0; i < olen; i++) {
        m.t[m.len++] = om.t[i];
    }
    m.t[m.len] = 0;
    check_state(s, &m);
    check_state(o, &om);
    F(del)(o);
    finish(s);
}

static void
h_append_ptr(int len, int slack, int olen)
{
    model m, om;
    STR_T s = mk_state(len, slack, &m);
    unsigned char *o = mk_cstr(olen, &om);
    int i;

    CHECK("append_from_ptr returns TRUE", F(append_from_ptr)(s, (spif_charptr_t) o) == TRUE);
    for (i = 0; i < olen; i++) {
        m.t[m.len++] = om.t[i];
    }
    m.t[m.len] = 0;
    check_state(s, &m);
    free(o);
    finish(s);
}

static void
h_append_char(int len, int slack)
{
    model m;
    STR_T s = mk_state(len, slack, &m);
    unsigned char c = V_CHAR();

    CHECK("append_char returns TRUE", F(append_char)(s, (spif_char_t) c) == TRUE);
    m.t[m.len++] = c;
    m.t[m.len] = 0;
    check_state(s, &m);
    finish(s);
}

static void
prepend_model(model *m, const model *om)
{
    int i;

    for (i = m->len; i >= 0; i--) {
        m->t[i + om->len] = m->t[i];
    }
    for (i = 0; i < om->len; i++) {
        m->t[i] = om->t[i];
    }
    m->len += om->len;
}

static void
h_prepend(int len, int slack, int olen, int oslack)
{
    model m, om;
    STR_T s = mk_state(len, slack, &m), o = mk_state(olen, oslack, &om);

    CHECK("prepend returns TRUE", F(prepend)(s, o) == TRUE);
    prepend_model(&m, &om);
    check_state(s, &m);
    check_state(o, &om);
    F(del)(o);
    finish(s);
}

static void
h_prepend_ptr(int len, int slack, int olen)
{
    model m, om;
    STR_T s = mk_state(len, slack, &m);
    unsigned char *o = mk_cstr(olen, &om);

    CHECK("prepend_from_ptr returns TRUE", F(prepend_from_ptr)(s, (spif_charptr_t) o) == TRUE);
    prepend_model(&m, &om);
    check_state(s, &m);
    free(o);
    finish(s);
}

static void
h_prepend_char(int len, int slack)
{
    model m, om;
    STR_T s = mk_state(len, slack, &m);

    om.len = 1;
    om.t[0] = V_CHAR();
    om.t[1] = 0;
    CHECK("prepend_char returns TRUE", F(prepend_char)(s, (spif_char_t) om.t[0]) == TRUE);
    prepend_model(&m, &om);
    check_state(s, &m);
    finish(s);
}

/* splice oracle; returns 1 when the request is in range (and applies it to the model) */
static int
splice_model(model *m, int idx, int cnt, const model *om)
{
    model r;
    int i, n = 0;

    if (idx < 0) {
        idx += m->len;
    }
    if (idx < 0 || idx >= m->len) {
        return 0;
    }
    if (cnt < 0) {
        cnt = idx + m->len + cnt;       /* the rule the code documents for negative counts */
    }
    if (cnt < 0 || cnt > m->len - idx) {
        return 0;
    }
    for (i = 0; i < idx; i++) {
        r.t[n++] = m->t[i];
    }
    for (i = 0; om && i < om->len; i++) {
        r.t[n++] = om->t[i];
    }
    for (i = idx + cnt; i < m->len; i++) {
        r.t[n++] = m->t[i];
    }
    r.t[n] = 0;
    r.len = n;
    *m = r;
    return 1;
}

/* onull: 1 = pass NULL as the inserted string */
static void
h_splice(int len, int slack, int idx, int cnt, int olen, int onull)
{
    model m, om;
    STR_T s = mk_state(len, slack, &m), o = onull ? (STR_T) NULL : mk_state(olen, olen ? 0 : -1, &om);
    int ok = splice_model(&m, idx, cnt, onull ? (model *) NULL : &om);
    spif_bool_t r = F(splice)(s, (IDX_T) idx, (IDX_T) cnt, o);

    CHECK("splice: in-range accepted, out-of-range refused", (r == TRUE) == (ok != 0));
    check_state(s, &m);
    if (o) {
        check_state(o, &om);
        F(del)(o);
    }
    finish(s);
}

static void
h_splice_ptr(int len, int slack, int idx, int cnt, int olen, int onull)
{
    model m, om;
    STR_T s = mk_state(len, slack, &m);
    unsigned char *o = onull ? NULL : mk_cstr(olen, &om);
    int ok = splice_model(&m, idx, cnt, onull ? (model *) NULL : &om);
    spif_bool_t r = F(splice_from_ptr)(s, (IDX_T) idx, (IDX_T) cnt, (spif_charptr_t) o);

    CHECK("splice_from_ptr: in-range accepted, out-of-range refused", (r == TRUE) == (ok != 0));
    check_state(s, &m);
    if (o) {
        free(o);
    }
    finish(s);
}

/* op: 0 trim, 1 reverse, 2 upcase, 3 downcase, 4 clear(c), 5 done, 6 done + init_from_ptr */
static void
h_unary(int op, int len, int slack)
{
    model m, r;
    STR_T s = mk_state(len, slack, &m);
    int i, a, b;
    unsigned char c;
    unsigned char *p;

    r = m;
    switch (op) {
        case 0:
            for (a = 0; a < m.len && ref_isspace(m.t[a]); a++) ;
            for (b = m.len; b > a && ref_isspace(m.t[b - 1]); b--) ;
            r.len = 0;
            for (i = a; i < b; i++) {
                r.t[r.len++] = m.t[i];
            }
            r.t[r.len] = 0;
            CHECK("trim returns TRUE", F(trim)(s) == TRUE);
            break;
        case 1:
            for (i = 0; i < m.len; i++) {
                r.t[i] = m.t[m.len - 1 - i];
            }
            (void) F(reverse)(s);
            break;
        case 2:
            for (i = 0; i < m.len; i++) {
                r.t[i] = ref_upper(m.t[i]);
            }
            CHECK("upcase returns TRUE", F(upcase)(s) == TRUE);
            break;
        case 3:
            for (i = 0; i < m.len; i++) {
                r.t[i] = ref_lower(m.t[i]);
            }
            CHECK("downcase returns TRUE", F(downcase)(s) == TRUE);
            break;
        case 4:
            c = V_CHAR();
            for (i = 0; i < m.len; i++) {
                r.t[i] = c;
            }
            CHECK("clear returns TRUE", F(clear)(s, (spif_char_t) c) == TRUE);
            break;
        case 5:
            r.len = 0;
            r.t[0] = 0;
            CHECK("done returns TRUE", F(done)(s) == TRUE);
            CHECK("done leaves the empty state", s->s == NULL && s->len == 0 && s->size == 0);
            break;
        case 6:
            CHECK("done returns TRUE", F(done)(s) == TRUE);
            p = mk_cstr(2, &r);
            CHECK("re-init returns TRUE", F(init_from_ptr)(s, (spif_charptr_t) p) == TRUE);
            free(p);
            break;
    }
    check_state(s, &r);
    finish(s);
}

/* ======================================================================= queries */

static int
find_model(const model *m, const model *n)
{
    int i, j;

    for (i = 0; i + n->len <= m->len; i++) {
        for (j = 0; j < n->len && m->t[i + j] == n->t[j]; j++) ;
        if (j == n->len) {
            return i;
        }
    }
    return m->len;
}

static void
h_index(int len, int slack)
{
    model m;
    STR_T s = mk_state(len, slack, &m);
    unsigned char c = V_CHAR();
    int i, first = len, last = len;

    for (i = 0; i < len; i++) {
        if (m.t[i] == c) {
            if (first == len) {
                first = i;
            }
            last = i;
        }
    }
    CHECK("index: first position, or the length when absent", F(index)(s, (spif_char_t) c) == first);
    CHECK("rindex: last position, or the length when absent", F(rindex)(s, (spif_char_t) c) == last);
    check_state(s, &m);
    finish(s);
}

static void
h_find(int len, int slack, int olen)
{
    model m, om, pm;
    STR_T s = mk_state(len, slack, &m), o = mk_state(olen, olen ? 0 : -1, &om);
    unsigned char *p;
    int i;

    CHECK("find: first occurrence, or the length when absent", F(find)(s, o) == find_model(&m, &om));
    p = mk_cstr(olen, &pm);
    CHECK("find_from_ptr: first occurrence, or the length when absent", F(find_from_ptr)(s, (spif_charptr_t) p) == find_model(&m, &pm));
    check_state(s, &m);
    check_state(o, &om);
    for (i = 0; i <= olen; i++) {
        CHECK("find_from_ptr leaves its argument alone", p[i] == pm.t[i]);
    }
    free(p);
    F(del)(o);
    finish(s);
}

/* substr / substr_to_ptr: idx, cnt shape */
static void
h_substr(int len, int slack, int idx, int cnt)
{
    model m, r;
    STR_T s = mk_state(len, slack, &m), sub;
    spif_charptr_t p;
    int start = idx, n = cnt, i, ok = 1;

    if (start < 0) {
        start += len;
    }
    if (start < 0 || start >= len) {
        ok = 0;
    } else {
        if (n <= 0) {
            n = len - start + n;
        }
        if (n < 0) {
            ok = 0;
        } else if (n > len - start) {
            n = len - start;        /* documented clamp */
        }
    }
    sub = F(substr)(s, (IDX_T) idx, (IDX_T) cnt);
    p = F(substr_to_ptr)(s, (IDX_T) idx, (IDX_T) cnt);
    if (!ok) {
        CHECK("substr: position outside the text refused", sub == NULL);
        CHECK("substr_to_ptr: position outside the text refused", p == NULL);
    } else {
        r.len = n;
        for (i = 0; i < n; i++) {
            r.t[i] = m.t[start + i];
        }
        r.t[n] = 0;
        CHECK("substr: returns a string", sub != NULL);
        if (sub) {
            check_state(sub, &r);
        }
        CHECK("substr_to_ptr: returns a string", p != NULL);
        if (p) {
            for (i = 0; i <= n; i++) {
                CHECK("substr_to_ptr: exactly the requested slice", (unsigned char) p[i] == r.t[i]);
            }
        }
    }
    check_state(s, &m);
    if (sub) {
        F(del)(sub);
    }
    if (p) {
        free(p);
    }
    finish(s);
}

static int
cmp_model(const model *a, const model *b, int n, int fold)
{
    int i;

    for (i = 0; (n < 0 || i < n); i++) {
        unsigned char x = a->t[i], y = b->t[i];

        if (fold) {
            x = ref_lower(x);
            y = ref_lower(y);
        }
        if (x != y) {
            return (x > y) ? 1 : -1;
        }
        if (!x) {
            return 0;
        }
    }
    return 0;
}

static void
h_cmp(int len, int slack, int olen)
{
    model m, om, pm;
    STR_T s = mk_state(len, slack, &m), o = mk_state(olen, olen ? 1 : -1, &om);
    unsigned char *p = mk_cstr(olen, &pm);
    int n = (int) V_RANGE(0, 4);

    CHECK("cmp", (int) F(cmp)(s, o) == cmp_model(&m, &om, -1, 0));
    CHECK("comp", (int) F(comp)(s, o) == cmp_model(&m, &om, -1, 0));
    CHECK("casecmp", (int) F(casecmp)(s, o) == cmp_model(&m, &om, -1, 1));
    CHECK("ncmp", (int) F(ncmp)(s, o, (IDX_T) n) == cmp_model(&m, &om, n, 0));
    CHECK("ncasecmp", (int) F(ncasecmp)(s, o, (IDX_T) n) == cmp_model(&m, &om, n, 1));
    CHECK("cmp_with_ptr", (int) F(cmp_with_ptr)(s, (spif_charptr_t) p) == cmp_model(&m, &pm, -1, 0));
    CHECK("casecmp_with_ptr", (int) F(casecmp_with_ptr)(s, (spif_charptr_t) p) == cmp_model(&m, &pm, -1, 1));
    CHECK("ncmp_with_ptr", (int) F(ncmp_with_ptr)(s, (spif_charptr_t) p, (IDX_T) n) == cmp_model(&m, &pm, n, 0));
    CHECK("ncasecmp_with_ptr", (int) F(ncasecmp_with_ptr)(s, (spif_charptr_t) p, (IDX_T) n) == cmp_model(&m, &pm, n, 1));
    CHECK("cmp: NULL orders first", (int) F(cmp)(s, (STR_T) NULL) == 1 && (int) F(cmp)((STR_T) NULL, s) == -1);
    check_state(s, &m);
    check_state(o, &om);
    free(p);
    F(del)(o);
    finish(s);
}

/* to_num: the text reaches strtoul unchanged (digits symbolic) */
static void
h_to_num(int len, int slack)
{
    model m;
    STR_T s;
    int i;
    unsigned long want = 0;

    s = mk_state(len, slack, &m);
    for (i = 0; i < len; i++) {
        ASSUME(m.t[i] >= '0' && m.t[i] <= '9');
        want = want * 10 + (unsigned long) (m.t[i] - '0');
    }
    CHECK("to_num: decimal value of the text", F(to_num)(s, 10) == want);
    check_state(s, &m);
    finish(s);
}

/* dup: equal value, own storage, consistent bookkeeping */
static void
h_dup(int len, int slack)
{
    model m;
    STR_T s = mk_state(len, slack, &m), d;

    d = F(dup)(s);
    CHECK("dup returns an object", d != NULL);
    if (d) {
        CHECK("dup is a distinct object", d != s);
        CHECK("dup has its own buffer", d->s == NULL || d->s != s->s);
        check_state(d, &m);
        F(del)(d);
    }
    check_state(s, &m);
    finish(s);
}

/* ======================================================================= constructors */

static void
h_new(void)
{
    model m;
    STR_T s = F(new)();

    m.len = 0;
    m.t[0] = 0;
    check_state(s, &m);
    finish(s);
}

static void
h_new_ptr(int len)
{
    model m;
    unsigned char *p = mk_cstr(len, &m);
    STR_T s = F(new_from_ptr)((spif_charptr_t) p);

    check_state(s, &m);
    free(p);
    finish(s);
}

/* new_from_buff(buff, size): buffer of exactly blen bytes (NUL only where the text ends, or no NUL
 * at all when tlen == blen); size shape */
static void
h_new_buff(int blen, int tlen, int size)
{
    model m;
    unsigned char *b = (unsigned char *) malloc((size_t) (blen ? blen : 1));
    STR_T s;
    int i, want;

    for (i = 0; i < blen; i++) {
        b[i] = (i < tlen) ? V_CHAR() : ((i == tlen) ? 0 : V_BYTE());
    }
    want = (tlen < size) ? tlen : size;
    m.len = want;
    for (i = 0; i < want; i++) {
        m.t[i] = b[i];
    }
    m.t[want] = 0;
    s = F(new_from_buff)((spif_charptr_t) b, (IDX_T) size);
    check_state(s, &m);
    if (s && s->s) {
        CHECK("new_from_buff: capacity covers the requested size", s->size >= size);
    }
    free(b);
    finish(s);
}

static void
h_new_buff_null(int size)
{
    model m;
    STR_T s = F(new_from_buff)((spif_charptr_t) NULL, (IDX_T) size);

    m.len = 0;
    m.t[0] = 0;
    check_state(s, &m);
    finish(s);
}

/* C05: dup is independent - mutating or deleting either object never changes or invalidates the other */
static void
h_dup_indep(int len, int slack)
{
    model m, dm;
    STR_T s = mk_state(len, slack, &m), d, d2;

    d = F(dup)(s);
    CHECK("dup returns an object", d != NULL);
    if (!d) {
        return;
    }
    CHECK("dup is of the same class", SPIF_OBJ_CLASS(d) == SPIF_OBJ_CLASS(s));
    CHECK("type() names the object's class", F(type)(s) == SPIF_OBJ_CLASSNAME(s));
    dm = m;
    F(append_char)(d, 'x');
    dm.t[dm.len++] = 'x';
    dm.t[dm.len] = 0;
    check_state(d, &dm);
    check_state(s, &m);                 /* mutating the copy left the original alone */
    F(del)(d);
    check_state(s, &m);                 /* deleting the copy left the original valid */
    d2 = F(dup)(s);
    F(append_char)(s, 'y');
    F(del)(s);
    if (d2) {
        check_state(d2, &m);            /* mutating and deleting the original left the copy valid */
    }
    finish(d2);
}

/* C05: comp laws on three arbitrary strings */
static void
h_comp_laws(int l1, int l2, int l3)
{
    model ma, mb, mc;
    STR_T a = mk_state(l1, l1 ? 0 : -1, &ma), b = mk_state(l2, 1, &mb), c = mk_state(l3, 0, &mc);
    int ab = (int) F(comp)(a, b), ba = (int) F(comp)(b, a), bc = (int) F(comp)(b, c), ac = (int) F(comp)(a, c), i, same;

    CHECK("comp is reflexive", (int) F(comp)(a, a) == 0 && (int) F(comp)(b, b) == 0);
    CHECK("comp is antisymmetric", ab == -ba);
    CHECK("comp is transitive", !(ab <= 0 && bc <= 0) || ac <= 0);
    CHECK("comp: equal then transitive equal", !(ab == 0 && bc == 0) || ac == 0);
    same = (l1 == l2);
    for (i = 0; same && i < l1; i++) {
        same = (ma.t[i] == mb.t[i]);
    }
    CHECK("comp reports equality exactly for equal texts", (ab == 0) == (same != 0));
    CHECK("NULL orders before every object", (int) F(comp)(a, (STR_T) NULL) == 1 && (int) F(comp)((STR_T) NULL, a) == -1 && (int) F(comp)((STR_T) NULL, (STR_T) NULL) == 0);
    F(del)(b);
    F(del)(c);
    finish(a);
}

#ifdef VERIF_STREAMS
#include <errno.h>
#include "env_io.h"

/* payload of plen symbolic non-NUL, non-newline bytes; newline at nlpos when 0 <= nlpos < plen */
static void
set_payload(int plen, int nlpos, int concrete)
{
    int i;

    for (i = 0; i < plen; i++) {
        unsigned char c = concrete ? (unsigned char) ('a' + i) : V_CHAR();

        ASSUME(c != '\n');
        verif_payload[i] = (i == nlpos) ? '\n' : c;
    }
    verif_payload_len = plen;
    verif_payload_pos = 0;
    verif_io_calls = 0;
    verif_eof_flag = 0;
    verif_io_active = 1;
}

/* new_from_fd: whole payload up to EOF, under a read schedule (k1..k3: 0 complete, j>0 short j,
 * -1 EINTR) and an initial errno (0 or EINTR: a stale value must not matter) */
static void
h_from_fd(int plen, int k1, int k2, int k3, int stale_eintr)
{
    model m;
    STR_T s;
    int i;

    set_payload(plen, -1, 0);
    verif_sched[0] = k1; verif_sched[1] = k2; verif_sched[2] = k3;
    verif_sched_n = 3;
    errno = stale_eintr ? EINTR : 0;
    m.len = plen;
    for (i = 0; i < plen; i++) {
        m.t[i] = verif_payload[i];
    }
    m.t[plen] = 0;
    s = F(new_from_fd)(3);
    verif_io_active = 0;
    check_state(s, &m);
    CHECK("from_fd consumed the whole input", verif_payload_pos == plen);
    finish(s);
}

/* new_from_fp: one line (newline removed) or everything up to EOF */
static void
h_from_fp(int plen, int nlpos)
{
    model m;
    STR_T s;
    int i, want = (nlpos >= 0 && nlpos < plen) ? nlpos : plen;

    /* line readers size their buffer with strlen()/strchr() of what they read: with symbolic bytes
     * the allocation size is symbolic and the query does not finish (8 GB), so payloads longer
     * than one chunk are concrete; the heap and everything else stay nondeterministic */
    set_payload(plen, nlpos, plen > 1);
    m.len = want;
    for (i = 0; i < want; i++) {
        m.t[i] = verif_payload[i];
    }
    m.t[want] = 0;
    s = F(new_from_fp)(VERIF_FP);
    verif_io_active = 0;
    check_state(s, &m);
    finish(s);
}
#endif

#ifdef VERIF_FORMAT
static int
ref_ltoa(long v, unsigned char *out)
{
    unsigned char tmp[24];
    unsigned long u = (v < 0) ? (0UL - (unsigned long) v) : (unsigned long) v;
    int n = 0, k = 0;

    do {
        tmp[n++] = (unsigned char) ('0' + u % 10);
        u /= 10;
    } while (u);
    if (v < 0) {
        out[k++] = '-';
    }
    while (n > 0) {
        out[k++] = tmp[--n];
    }
    out[k] = 0;
    return k;
}

static void
h_from_num(int digits)
{
    model m;
    long lim = (digits == 1) ? 9 : ((digits == 2) ? 99 : ((digits == 3) ? 999 : 99999));
    long v = V_RANGE(-lim, lim);
    STR_T s = F(new_from_num)(v);

    m.len = ref_ltoa(v, m.t);
    check_state(s, &m);
    finish(s);
}

/* sprintf onto a string in any state: mode 0 "" (string emptied), 1 "%s" of a text, 2 "a%db" */
static void
h_sprintf(int len, int slack, int mode, int alen)
{
    model m, r, am;
    STR_T s = mk_state(len, slack, &m);
    unsigned char *a;
    int i, n;

    if (mode == 0) {
        CHECK("sprintf(\"\") succeeds", F(sprintf)(s, SPIF_CHARPTR("")) == TRUE);
        r.len = 0;
        r.t[0] = 0;
    } else if (mode == 1) {
        a = mk_cstr(alen, &am);
        (void) F(sprintf)(s, SPIF_CHARPTR("%s"), a);
        r = am;
        free(a);
    } else {
        n = (int) V_RANGE(-99, 99);
        CHECK("sprintf succeeds", F(sprintf)(s, SPIF_CHARPTR("a%db"), n) == TRUE);
        r.t[0] = 'a';
        i = 1 + ref_ltoa((long) n, r.t + 1);
        r.t[i++] = 'b';
        r.t[i] = 0;
        r.len = i;
    }
    check_state(s, &r);
    finish(s);
}
#endif

#include VERIF_ENTRIES
