/* C16: NULL-argument calls fail soft.  Support code for the generated harness (vp/gen_null.py). */
#ifdef HAVE_CONFIG_H
# include <config.h>
#endif
#include <libast_internal.h>
#include "common.h"

extern int verif_fatal_forbidden;
static char verif_text[4] = "ab";
static char verif_empty[1] = "";
static spif_charptr_t verif_list_store[2] = { (spif_charptr_t) "ab", (spif_charptr_t) 0 };
#define verif_list verif_list_store

/* objects handed to the call as the OTHER (valid) arguments; deleted again afterwards so that an
 * allocation made by the refused call shows up as a leak */
static void *made[6];
static int made_kind[6], nmade;
enum { K_STR, K_USTR, K_MBUFF, K_TOK, K_URL, K_REGEXP, K_PAIR, K_SOCKET };

static void *
remember(void *p, int kind)
{
    made[nmade] = p;
    made_kind[nmade++] = kind;
    return p;
}

static spif_str_t mk_str(void) { return (spif_str_t) remember(spif_str_new_from_ptr(SPIF_CHARPTR(verif_text)), K_STR); }
static spif_ustr_t mk_ustr(void) { return (spif_ustr_t) remember(spif_ustr_new_from_ptr(SPIF_CHARPTR(verif_text)), K_USTR); }
static spif_mbuff_t mk_mbuff(void) { return (spif_mbuff_t) remember(spif_mbuff_new_from_ptr((spif_byteptr_t) verif_text, 2), K_MBUFF); }
static spif_str_t mk_str_empty(void) { return (spif_str_t) remember(spif_str_new(), K_STR); }
static spif_ustr_t mk_ustr_empty(void) { return (spif_ustr_t) remember(spif_ustr_new(), K_USTR); }
static spif_mbuff_t mk_mbuff_empty(void) { return (spif_mbuff_t) remember(spif_mbuff_new(), K_MBUFF); }
static spif_tok_t mk_tok(void) { return (spif_tok_t) remember(spif_tok_new_from_ptr(SPIF_CHARPTR(verif_text)), K_TOK); }
static spif_url_t mk_url(void) { return (spif_url_t) remember(spif_url_new_from_ptr(SPIF_CHARPTR("/p")), K_URL); }
static spif_regexp_t mk_regexp(void) { return (spif_regexp_t) remember(spif_regexp_new_from_ptr(SPIF_CHARPTR(verif_text)), K_REGEXP); }
static spif_socket_t mk_socket(void) { return (spif_socket_t) remember(spif_socket_new(), K_SOCKET); }

static spif_objpair_t
mk_pair(void)
{
    spif_str_t k = spif_str_new_from_ptr(SPIF_CHARPTR("k")), v = spif_str_new_from_ptr(SPIF_CHARPTR("v"));
    spif_objpair_t p = spif_objpair_new_from_both(SPIF_OBJ(k), SPIF_OBJ(v));

    spif_str_del(k);
    spif_str_del(v);
    return (spif_objpair_t) remember(p, K_PAIR);
}

static void
null_begin(void)
{
    nmade = 0;
    libast_debug_level = (unsigned int) V_RANGE(0, 0xffffffffL);
    /* at level 0 the call must return; at level >= 1 it may instead end through libast_fatal_error() */
    verif_fatal_forbidden = (libast_debug_level == 0);
}

#define NULL_RESULT(label, cond) CHECK(label, cond)

static void
null_end(void)
{
    int i;

    verif_fatal_forbidden = 0;
    for (i = 0; i < nmade; i++) {
        if (!made[i]) {
            continue;
        }
        switch (made_kind[i]) {
            case K_STR:    spif_str_del((spif_str_t) made[i]); break;
            case K_USTR:   spif_ustr_del((spif_ustr_t) made[i]); break;
            case K_MBUFF:  spif_mbuff_del((spif_mbuff_t) made[i]); break;
            case K_TOK:    spif_tok_del((spif_tok_t) made[i]); break;
            case K_URL:    spif_url_del((spif_url_t) made[i]); break;
            case K_REGEXP: spif_regexp_del((spif_regexp_t) made[i]); break;
            case K_PAIR:   spif_objpair_del((spif_objpair_t) made[i]); break;
            case K_SOCKET: spif_socket_del((spif_socket_t) made[i]); break;
        }
    }
    WITNESS();
}
