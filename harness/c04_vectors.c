/* C04: the vector flavour of array / linked_list / dlinked_list is one sorted multiset.
 * Pre-state: n elements in non-decreasing order.  For insert/remove on the array class the
 * values are a shape (they decide block-move sizes); elsewhere they are symbolic. */
#include "containers.h"

/* sorted state; vals: NULL -> symbolic non-decreasing values 0..3, else concrete */
static spif_obj_t
mk_vector(int cls, int kind, int n, const int *vals, seq *s)
{
    spif_obj_t c = new_container(cls, kind);
    int i;

    s->n = n;
    for (i = 0; i < n; i++) {
        int v = vals ? vals[i] : (int) V_RANGE(0, 3);

        if (i > 0) {
            ASSUME(s->v[i - 1] <= v);
        }
        s->v[i] = v;
        s->o[i] = (spif_obj_t) vint_new_v(v);
    }
    fill_container(cls, c, s);
    return c;
}

/* post-state: exactly the expected objects (by identity, once each), in non-decreasing order,
 * and the same through count / iterator / to_array */
static void
check_vector(int cls, spif_obj_t c, const seq *want)
{
    spif_obj_t got[MAXN + 2], *arr;
    spif_iterator_t it;
    int k = rep_extract(cls, c, got), i, j, cnt;

    CHECK("vector holds exactly the inserted-and-not-removed elements (count)", k == want->n);
    for (i = 0; i < k; i++) {
        CHECK("vector never holds a NULL element", got[i] != NULL);
        if (!got[i]) {
            return;
        }
        if (i > 0) {
            CHECK("vector is in ascending order", VINT(got[i - 1])->v <= VINT(got[i])->v);
        }
    }
    for (j = 0; j < want->n; j++) {
        cnt = 0;
        for (i = 0; i < k; i++) {
            cnt += (got[i] == want->o[j]);
        }
        CHECK("every expected element is stored exactly once", cnt == 1);
    }
    CHECK("count equals the number of elements", (int) SPIF_VECTOR_COUNT(SPIF_VECTOR(c)) == k);
    it = SPIF_VECTOR_ITERATOR(SPIF_VECTOR(c));
    CHECK("iterator created", it != NULL);
    if (it) {
        for (i = 0; i < k; i++) {
            CHECK("iterator has_next before count elements", SPIF_ITERATOR_HAS_NEXT(it));
            CHECK("iterator yields the stored order", SPIF_ITERATOR_NEXT(it) == got[i]);
        }
        CHECK("iterator exhausted exactly after count elements", !SPIF_ITERATOR_HAS_NEXT(it));
        SPIF_OBJ_DEL(it);
    }
    arr = SPIF_VECTOR_TO_ARRAY(SPIF_VECTOR(c));
    if (k > 0) {
        CHECK("to_array returns an array", arr != NULL);
        for (i = 0; i < k && arr; i++) {
            CHECK("to_array yields the stored order", arr[i] == got[i]);
        }
    }
    WITNESS();
}

static void
decode(int n, int code, int *vals)
{
    /* non-decreasing values over {1,3,5}: code digits base 3 are increments */
    int i, v = 1;

    for (i = 0; i < n; i++, code /= 3) {
        v += 2 * (code % 3);
        if (v > 5) {
            v = 5;
        }
        vals[i] = v;
    }
}

/* insert; code < 0: symbolic values and probe, else concrete pattern + concrete probe x */
static void
h_insert(int cls, int n, int code, int x)
{
    seq s;
    int vals[MAXN], v;
    spif_obj_t c, o;

    if (code >= 0) {
        decode(n, code, vals);
    }
    c = mk_vector(cls, 1, n, (code >= 0) ? vals : (const int *) NULL, &s);
    v = (code >= 0) ? x : (int) V_RANGE(0, 3);
    o = (spif_obj_t) vint_new_v(v);
    CHECK("insert returns TRUE", SPIF_VECTOR_INSERT(SPIF_VECTOR(c), o) == TRUE);
    s.v[s.n] = v;
    s.o[s.n] = o;
    s.n++;
    check_vector(cls, c, &s);
}

static void
h_remove(int cls, int n, int code, int x)
{
    seq s;
    int vals[MAXN], v, i, present = 0;
    spif_obj_t c, probe, r;

    if (code >= 0) {
        decode(n, code, vals);
    }
    c = mk_vector(cls, 1, n, (code >= 0) ? vals : (const int *) NULL, &s);
    v = (code >= 0) ? x : (int) V_RANGE(0, 3);
    probe = (spif_obj_t) vint_new_v(v);
    for (i = 0; i < n; i++) {
        present |= (s.v[i] == v);
    }
    r = SPIF_VECTOR_REMOVE(SPIF_VECTOR(c), probe);
    if (!present) {
        CHECK("remove: absent value -> NULL", r == NULL);
    } else {
        CHECK("remove: takes out a stored element equal to the probe", r != NULL && r != probe && VINT(r)->v == v);
        for (i = 0; i < s.n; i++) {
            if (s.o[i] == r) {
                break;
            }
        }
        CHECK("remove: the element handed back was stored", i < s.n);
        if (i < s.n) {
            seq_remove(&s, i);
        }
    }
    check_vector(cls, c, &s);
}

/* find / contains with symbolic sorted values and symbolic probe */
static void
h_find(int cls, int n)
{
    seq s;
    spif_obj_t c = mk_vector(cls, 1, n, (const int *) NULL, &s), probe, r;
    int v = (int) V_RANGE(-1, 4), i, present = 0;

    probe = (spif_obj_t) vint_new_v(v);
    for (i = 0; i < n; i++) {
        present |= (s.v[i] == v);
    }
    r = SPIF_VECTOR_FIND(SPIF_VECTOR(c), probe);
    if (present) {
        CHECK("find: returns a stored element equal to the probe", r != NULL && r != probe && VINT(r)->v == v);
    } else {
        CHECK("find: absent value (below min, above max, in a gap) -> NULL", r == NULL);
    }
    CHECK("contains agrees with find", (SPIF_VECTOR_CONTAINS(SPIF_VECTOR(c), probe) != FALSE) == (present != 0));
    check_vector(cls, c, &s);
}

#include VERIF_ENTRIES
