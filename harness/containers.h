/* Shared machinery for the container harnesses (C02-C06): an int-valued element class,
 * direct construction of arbitrary valid container states for the three implementing
 * classes, representation invariants and read-back. */
#ifndef VERIF_CONTAINERS_H
#define VERIF_CONTAINERS_H

#ifdef HAVE_CONFIG_H
# include <config.h>
#endif
#include <libast_internal.h>
#include "common.h"

#define CLS_ARRAY   0
#define CLS_LINKED  1
#define CLS_DLINKED 2
#define MAXN 8

/* ------------------------------------------------------------------ element class "vint" */
typedef struct vint_struct {
    spif_class_t cls;
    int v;
} *vint_t;

static int vint_live;           /* elements allocated and not yet deleted */
static int vint_dels;           /* del calls */

static vint_t vint_new_v(int v);

static spif_obj_t
vint_noo(void)
{
    return (spif_obj_t) vint_new_v(0);
}

static spif_bool_t
vint_init(vint_t self)
{
    self->v = 0;
    return TRUE;
}

static spif_bool_t
vint_done(vint_t self)
{
    self->v = 0;
    return TRUE;
}

static spif_bool_t
vint_del(vint_t self)
{
    vint_live--;
    vint_dels++;
    free(self);
    return TRUE;
}

static spif_str_t
vint_show(vint_t self, spif_charptr_t name, spif_str_t buff, size_t indent)
{
    (void) self; (void) name; (void) indent;
    return buff;
}

static spif_cmp_t
vint_comp(vint_t self, vint_t other)
{
    SPIF_OBJ_COMP_CHECK_NULL(self, other);
    return (self->v < other->v) ? SPIF_CMP_LESS : ((self->v > other->v) ? SPIF_CMP_GREATER : SPIF_CMP_EQUAL);
}

static vint_t
vint_dup(vint_t self)
{
    return vint_new_v(self->v);
}

static spif_classname_t
vint_type(vint_t self)
{
    return SPIF_OBJ_CLASSNAME(self);
}

static const struct spif_class_t_struct vint_class = {
    (spif_classname_t) "!vint!",
    (spif_func_t) vint_noo,
    (spif_func_t) vint_init,
    (spif_func_t) vint_done,
    (spif_func_t) vint_del,
    (spif_func_t) vint_show,
    (spif_func_t) vint_comp,
    (spif_func_t) vint_dup,
    (spif_func_t) vint_type
};

static vint_t
vint_new_v(int v)
{
    vint_t o = (vint_t) malloc(sizeof(struct vint_struct));

    o->cls = (spif_class_t) &vint_class;
    o->v = v;
    vint_live++;
    return o;
}

#define VINT(o) ((vint_t) (o))

/* ------------------------------------------------------------------ ideal sequence */
#define PH (-1)                 /* NULL placeholder */
typedef struct {
    int n;
    int v[MAXN + 2];
    spif_obj_t o[MAXN + 2];     /* the stored objects, for identity checks */
} seq;

/* ------------------------------------------------------------------ construction */
static spif_obj_t
new_container(int cls, int kind)
{
    if (kind == 0) {
        return (cls == CLS_ARRAY) ? SPIF_OBJ(SPIF_LIST_NEW(array)) : ((cls == CLS_LINKED) ? SPIF_OBJ(SPIF_LIST_NEW(linked_list)) : SPIF_OBJ(SPIF_LIST_NEW(dlinked_list)));
    } else if (kind == 1) {
        return (cls == CLS_ARRAY) ? SPIF_OBJ(SPIF_VECTOR_NEW(array)) : ((cls == CLS_LINKED) ? SPIF_OBJ(SPIF_VECTOR_NEW(linked_list)) : SPIF_OBJ(SPIF_VECTOR_NEW(dlinked_list)));
    }
    return (cls == CLS_ARRAY) ? SPIF_OBJ(SPIF_MAP_NEW(array)) : ((cls == CLS_LINKED) ? SPIF_OBJ(SPIF_MAP_NEW(linked_list)) : SPIF_OBJ(SPIF_MAP_NEW(dlinked_list)));
}

/* put the n objects of s->o into a freshly created container, building the representation directly */
static void
fill_container(int cls, spif_obj_t c, const seq *s)
{
    int i, n = s->n;

    if (cls == CLS_ARRAY) {
        spif_array_t a = SPIF_ARRAY(c);

        a->len = n;
        a->items = n ? (spif_obj_t *) malloc(sizeof(spif_obj_t) * (size_t) n) : (spif_obj_t *) NULL;
        for (i = 0; i < n; i++) {
            a->items[i] = s->o[i];
        }
    } else if (cls == CLS_LINKED) {
        spif_linked_list_t l = SPIF_LINKED_LIST(c);
        spif_linked_list_item_t prev = NULL;

        l->len = n;
        l->head = NULL;
        for (i = 0; i < n; i++) {
            spif_linked_list_item_t it = SPIF_ALLOC(linked_list_item);

            it->data = s->o[i];
            it->next = NULL;
            if (prev) {
                prev->next = it;
            } else {
                l->head = it;
            }
            prev = it;
        }
    } else {
        spif_dlinked_list_t l = SPIF_DLINKED_LIST(c);
        spif_dlinked_list_item_t prev = NULL;

        l->len = n;
        l->head = l->tail = NULL;
        for (i = 0; i < n; i++) {
            spif_dlinked_list_item_t it = SPIF_ALLOC(dlinked_list_item);

            it->data = s->o[i];
            it->next = NULL;
            it->prev = prev;
            if (prev) {
                prev->next = it;
            } else {
                l->head = it;
            }
            prev = it;
        }
        l->tail = prev;
    }
}

/* arbitrary list state: n slots, element values symbolic 0..3.  Placeholders: phmask == -1 makes
 * every slot symbolically a NULL placeholder or an element (for operations that never dispatch
 * through an element's class table); phmask >= 0 puts placeholders exactly at the set bits, so
 * element pointers are concrete objects and CBMC resolves `obj->cls->comp` to one target instead of
 * fanning out to every address-taken function (DESIGN 3.4). */
static spif_obj_t
mk_list(int cls, int kind, int n, int phmask, seq *s)
{
    spif_obj_t c = new_container(cls, kind);
    int i;

    s->n = n;
    for (i = 0; i < n; i++) {
        int v;

        if (phmask < 0) {
            v = (int) V_RANGE(-1, 3);
        } else {
            v = ((phmask >> i) & 1) ? PH : (int) V_RANGE(0, 3);
        }
        s->v[i] = v;
        if (phmask < 0) {
            s->o[i] = (v < 0) ? (spif_obj_t) NULL : (spif_obj_t) vint_new_v(v);
        } else if ((phmask >> i) & 1) {
            s->o[i] = (spif_obj_t) NULL;
        } else {
            s->o[i] = (spif_obj_t) vint_new_v(v);       /* a concrete object pointer */
        }
    }
    fill_container(cls, c, s);
    return c;
}

/* ------------------------------------------------------------------ invariants + read-back */
static void
check_rep(int cls, spif_obj_t c, const seq *s)
{
    int i, n = s->n;

    CHECK("container survives the operation", c != NULL);
    if (!c) {
        return;
    }
    if (cls == CLS_ARRAY) {
        spif_array_t a = SPIF_ARRAY(c);

        CHECK("array: len equals the ideal length", a->len == n);
        if (n > 0) {
            CHECK("array: items allocated", a->items != NULL);
            CHECK("array: items has at least len slots", OBJ_SIZE(a->items) >= sizeof(spif_obj_t) * (size_t) n);
            for (i = 0; i < n && a->items; i++) {
                CHECK("array: slot holds the ideal element", a->items[i] == s->o[i]);
            }
        }
    } else if (cls == CLS_LINKED) {
        spif_linked_list_t l = SPIF_LINKED_LIST(c);
        spif_linked_list_item_t it = l->head;

        CHECK("linked_list: len equals the ideal length", l->len == n);
        for (i = 0; i < n; i++) {
            CHECK("linked_list: chain as long as len", it != NULL);
            if (!it) {
                return;
            }
            CHECK("linked_list: node holds the ideal element", it->data == s->o[i]);
            it = it->next;
        }
        CHECK("linked_list: chain ends after len nodes", it == NULL);
    } else {
        spif_dlinked_list_t l = SPIF_DLINKED_LIST(c);
        spif_dlinked_list_item_t it = l->head, prev = NULL;

        CHECK("dlinked_list: len equals the ideal length", l->len == n);
        for (i = 0; i < n; i++) {
            CHECK("dlinked_list: chain as long as len", it != NULL);
            if (!it) {
                return;
            }
            CHECK("dlinked_list: node holds the ideal element", it->data == s->o[i]);
            CHECK("dlinked_list: back-link mirrors forward link", it->prev == prev);
            prev = it;
            it = it->next;
        }
        CHECK("dlinked_list: chain ends after len nodes", it == NULL);
        CHECK("dlinked_list: tail is the last node", l->tail == prev);
    }
}

/* full read-back through the public list interface: count, get(i) for i in [-n, n], fresh iterator */
static void
check_list_api(spif_obj_t c, const seq *s)
{
    spif_list_t l = SPIF_LIST(c);
    spif_iterator_t it;
    int i, n = s->n;

    CHECK("count equals the ideal length", SPIF_LIST_COUNT(l) == n);
    for (i = 0; i < n; i++) {
        CHECK("get(i) returns the ideal element", SPIF_LIST_GET(l, i) == s->o[i]);
        CHECK("get(i - len) returns the ideal element", SPIF_LIST_GET(l, i - n) == s->o[i]);
    }
    CHECK("get(len) is refused", SPIF_LIST_GET(l, n) == NULL);
    CHECK("get(-len-1) is refused", SPIF_LIST_GET(l, -n - 1) == NULL);
    it = SPIF_LIST_ITERATOR(l);
    CHECK("iterator created", it != NULL);
    if (it) {
        for (i = 0; i < n; i++) {
            CHECK("iterator has_next before count elements", SPIF_ITERATOR_HAS_NEXT(it));
            CHECK("iterator yields the elements in order", SPIF_ITERATOR_NEXT(it) == s->o[i]);
        }
        CHECK("iterator exhausted exactly after count elements", !SPIF_ITERATOR_HAS_NEXT(it));
        SPIF_OBJ_DEL(it);
    }
}

static void
seq_insert(seq *s, int pos, int v, spif_obj_t o)
{
    int i;

    for (i = s->n; i > pos; i--) {
        s->v[i] = s->v[i - 1];
        s->o[i] = s->o[i - 1];
    }
    s->v[pos] = v;
    s->o[pos] = o;
    s->n++;
}

static void
seq_remove(seq *s, int pos)
{
    int i;

    for (i = pos; i + 1 < s->n; i++) {
        s->v[i] = s->v[i + 1];
        s->o[i] = s->o[i + 1];
    }
    s->n--;
}

/* read the representation into out[]; returns the number of nodes/slots found (at most MAXN+1),
 * checking the structural part of the invariant on the way */
static int
rep_extract(int cls, spif_obj_t c, spif_obj_t *out)
{
    int k = 0;

    if (cls == CLS_ARRAY) {
        spif_array_t a = SPIF_ARRAY(c);

        CHECK("array: len is not negative", a->len >= 0);
        if (a->len > 0) {
            CHECK("array: items allocated", a->items != NULL);
            CHECK("array: items has at least len slots", a->items == NULL || OBJ_SIZE(a->items) >= sizeof(spif_obj_t) * (size_t) a->len);
        }
        for (k = 0; k < a->len && k <= MAXN && a->items; k++) {
            out[k] = a->items[k];
        }
    } else if (cls == CLS_LINKED) {
        spif_linked_list_t l = SPIF_LINKED_LIST(c);
        spif_linked_list_item_t it;

        for (it = l->head; it && k <= MAXN; it = it->next) {
            out[k++] = it->data;
        }
        CHECK("linked_list: chain length equals len", k == l->len);
    } else {
        spif_dlinked_list_t l = SPIF_DLINKED_LIST(c);
        spif_dlinked_list_item_t it, prev = NULL;

        for (it = l->head; it && k <= MAXN; prev = it, it = it->next) {
            CHECK("dlinked_list: back-link mirrors forward link", it->prev == prev);
            out[k++] = it->data;
        }
        CHECK("dlinked_list: chain length equals len", k == l->len);
        CHECK("dlinked_list: tail is the last node", l->tail == prev);
    }
    return k;
}

#endif
