/* C08: the option parser assigns exactly what the command line says and nothing else.
 *
 * The argument vector is a SHAPE (one query per sequence of tokens from the alphabet below, every
 * word in an exact-size heap object, argv itself an exact-size array of argc+1 pointers) and so is
 * the table variant (which options have short forms / belong to the pre-parse pass).  Inside each
 * query the solver ranges over the parser settings (pre-parse and remove-args bits: all four
 * combinations), the three boolean masks (all 2^32 values each, overlapping or not), the initial
 * contents of the two flag words (2^64 each) and of the integer targets.  The oracle is an
 * independently written "ideal reading" of the command line (ref_parse below).
 */
#ifdef HAVE_CONFIG_H
# include <config.h>
#endif
#include <libast_internal.h>
#include "common.h"

/* ---------------------------------------------------------------- token alphabet */
static const char *const tokens[] = {
    "x", "no", "7",                                 /* 0-2   plain words (a boolean word, a number) */
    "-a", "-va", "-n7", "-n", "-an", "-sq", "-s",   /* 3-9   short spellings */
    "--aa", "--aa=off", "--bb", "--num=12", "--num", "--str=w", "--str",      /* 10-16 long spellings */
    "-e", "--exec=p 'q r'", "--exec",               /* 17-19 argument list */
    "-t", "--theme=k",                              /* 20-21 abstract */
    "-", "--", "-z", "--zz", "-az",                 /* 22-26 malformed / unknown */
    "--cc", "--vv", "--AA=Yes", "-v",               /* 27-30 long-only integer, second flag bit, case */
    0
};
#define NTOK 31
#define MAXW 4

/* ---------------------------------------------------------------- option table and targets */
static unsigned long F1, F2;
static int N, C;
static char *S;
static char **E;
static int abst_calls;
static char *abst_arg;
static int help_calls;

static void
verif_abst(spif_charptr_t arg)
{
    abst_calls++;
    abst_arg = (char *) arg;
}

static void
verif_help(void)
{
    help_calls++;
}

#define NOPT 8
static spifopt_t table[NOPT];
enum { O_A, O_V, O_BB, O_NUM, O_CC, O_STR, O_EXEC, O_THEME };

static void
mk_table(int tv, spif_uint32_t m0, spif_uint32_t m1, spif_uint32_t m2)
{
    /* tv 0: no pre-parse options; tv 1: v, str, exec, theme are pre-parse (as in the library's own test);
     * tv 2: a, num, cc are pre-parse and str, exec, theme exist in long form only */
    static const spif_uint16_t pp[3][NOPT] = {
        { 0, 0, 0, 0, 0, 0, 0, 0 }, { 0, 1, 0, 0, 0, 1, 1, 1 }, { 1, 0, 0, 1, 1, 0, 0, 0 }
    };
    spifopt_t t[NOPT] = {
        SPIFOPT_OPTION('a', "aa", "d", SPIFOPT_FLAG_BOOLEAN, &F1, 0),
        SPIFOPT_OPTION('v', "vv", "d", SPIFOPT_FLAG_BOOLEAN, &F1, 0),
        SPIFOPT_OPTION(0, "bb", "d", SPIFOPT_FLAG_BOOLEAN, &F2, 0),
        SPIFOPT_OPTION('n', "num", "d", SPIFOPT_FLAG_INTEGER, &N, 0),
        SPIFOPT_OPTION(0, "cc", "d", SPIFOPT_FLAG_INTEGER, &C, 0),
        SPIFOPT_OPTION('s', "str", "d", SPIFOPT_FLAG_STRING, &S, 0),
        SPIFOPT_OPTION('e', "exec", "d", SPIFOPT_FLAG_ARGLIST, &E, 0),
        SPIFOPT_OPTION('t', "theme", "d", SPIFOPT_FLAG_ABSTRACT, (spif_ptr_t) verif_abst, 0),
    };
    int j;

    for (j = 0; j < NOPT; j++) {
        table[j] = t[j];
        if (pp[tv][j]) {
            table[j].flags |= SPIFOPT_FLAG_PREPARSE;
        }
        if (tv == 2 && j >= O_STR) {
            table[j].short_opt = 0;
        }
    }
    table[O_A].mask = m0;
    table[O_V].mask = m1;
    table[O_BB].mask = m2;
}

/* ---------------------------------------------------------------- the ideal reading */
enum { KEEP = 0, DROP = 1, EITHER = 2 };

typedef struct {
    unsigned long f1, f2;           /* expected flag words */
    int n_set, n_val, c_set, c_val; /* integer targets: assigned? last value */
    int s_set; const char *s_val;   /* string target */
    int e_set, e_cnt; const char *e_word[MAXW + 2];   /* argument list */
    int t_calls; const char *t_arg; /* abstract handler: calls made, last argument (NULL = none) */
    int bad, ambiguous;             /* bad items on the line; line contains an item the reading leaves open */
    int word[MAXW + 2];             /* per argv word: KEEP / DROP / EITHER */
} reading_t;

static int
r_isbool(const char *w, int *val)
{
    static const char *const tv[] = { "1", "on", "yes", "true" }, *const fv[] = { "0", "off", "no", "false" };
    int k;

    if (!w) {
        return 0;
    }
    for (k = 0; k < 4; k++) {
        if (!strcasecmp(w, tv[k])) {
            *val = 1;
            return 1;
        }
        if (!strcasecmp(w, fv[k])) {
            *val = 0;
            return 1;
        }
    }
    return 0;
}

static int
r_long(const char *name, int len)
{
    int j, k;

    for (j = 0; j < NOPT; j++) {
        const char *l = (const char *) table[j].long_opt;

        for (k = 0; k < len && l[k]; k++) {
            char a = l[k], b = name[k];

            if (a >= 'A' && a <= 'Z') a = (char) (a + 32);
            if (b >= 'A' && b <= 'Z') b = (char) (b + 32);
            if (a != b) {
                break;
            }
        }
        if (k == len && !l[k]) {
            return j;
        }
    }
    return -1;
}

static int
r_short(char c)
{
    int j;

    for (j = 0; c && j < NOPT; j++) {
        if (table[j].short_opt == c) {
            return j;
        }
    }
    return -1;
}

/* is this word a spelling of a known option? (an abstract option does not take such a word as its value) */
static int
r_is_option(const char *w)
{
    int len;

    if (!w || w[0] != '-') {
        return 0;
    }
    if (w[1] == '-') {
        for (len = 0; w[2 + len] && w[2 + len] != '='; len++) ;
        return r_long(w + 2, len) >= 0;
    }
    return r_short(w[1]) >= 0;
}

/* apply one recognised option; `should` = it belongs to the pass being run */
static void
r_apply(reading_t *r, int j, const char *val, int should, spif_uint32_t mask, int boolval,
        int argc, char *const *orig, int from, int eq)
{
    int k;

    if (!should) {
        return;
    }
    switch (j) {
        case O_A: case O_V:
            r->f1 = boolval ? (r->f1 | (unsigned long) mask) : (r->f1 & ~((unsigned long) mask));
            break;
        case O_BB:
            r->f2 = boolval ? (r->f2 | (unsigned long) mask) : (r->f2 & ~((unsigned long) mask));
            break;
        case O_NUM:
            r->n_set = 1; r->n_val = (int) strtol(val, (char **) 0, 0);
            break;
        case O_CC:
            r->c_set = 1; r->c_val = (int) strtol(val, (char **) 0, 0);
            break;
        case O_STR:
            r->s_set = 1; r->s_val = val;
            break;
        case O_EXEC:
            r->e_set = 1;
            if (eq) {
                /* --exec=p 'q r' : the value split into words, quotes group */
                r->e_cnt = 2; r->e_word[0] = "p"; r->e_word[1] = "q r";
            } else {
                for (k = 0; from + k < argc && k < MAXW + 1; k++) {
                    r->e_word[k] = orig[from + k];
                }
                r->e_cnt = k;
            }
            break;
        case O_THEME:
            r->t_calls++; r->t_arg = val;
            break;
    }
}

static void
ref_parse(reading_t *r, int argc, char *const *orig, int pre)
{
    int i = 1, j, k, len;

    while (i < argc) {
        const char *w = orig[i];
        const char *next = (i + 1 < argc) ? orig[i + 1] : (const char *) 0;
        const char *val = 0;
        int bv = 1, eq = 0, took_next = 0, should;

        if (w[0] != '-') {
            r->word[i++] = KEEP;
            continue;
        }
        if (!w[1]) {                                    /* a lone '-': a plain word or a bad option, nothing else */
            r->word[i++] = EITHER;
            r->ambiguous = 1;
            continue;
        }
        if (w[1] == '-') {                              /* --name, --name=value, --name value */
            for (len = 0; w[2 + len] && w[2 + len] != '='; len++) ;
            j = r_long(w + 2, len);
            if (j < 0) {
                r->bad++;
                r->word[i++] = EITHER;
                continue;
            }
            if (w[2 + len] == '=') {
                val = w + 3 + len;
                eq = 1;
            } else {
                val = next;
            }
            if (table[j].flags & SPIFOPT_FLAG_BOOLEAN) {
                if (!r_isbool(val, &bv)) {
                    val = 0; bv = 1;
                }
            } else if ((table[j].flags & SPIFOPT_FLAG_ABSTRACT) && !eq && val && val[0] == '-' && val[1]) {
                if (r_is_option(val)) {
                    val = 0;
                } else {
                    r->ambiguous = 1;                   /* an unknown option as the value: complaint or not is left open */
                }
            }
            took_next = (val && !eq);
            r->word[i] = DROP;
            if (took_next) {
                r->word[i + 1] = DROP;
            }
            should = pre ? !!(table[j].flags & SPIFOPT_FLAG_PREPARSE) : !(table[j].flags & SPIFOPT_FLAG_PREPARSE);
            if ((table[j].flags & SPIFOPT_FLAG_TYPEMASK_VALUE) && !val) {
                r->bad++;                               /* a value is required and the line has none */
                r->word[i] = EITHER;
                i++;
                continue;
            }
            if ((table[j].flags & SPIFOPT_FLAG_ARGLIST) && !eq) {
                r_apply(r, j, val, should, 0, 0, argc, orig, i + 1, 0);
                for (k = i + 1; k < argc; k++) {
                    r->word[k] = DROP;                  /* swallowed by the argument list */
                }
                return;
            }
            r_apply(r, j, val, should, table[j].mask, bv, argc, orig, 0, eq);
            i += 1 + took_next;
            continue;
        }
        /* -x, -xyz, -xVALUE, -x VALUE */
        r->word[i] = DROP;
        for (k = 1; w[k]; k++) {
            j = r_short(w[k]);
            if (j < 0) {
                r->bad++;
                r->word[i] = EITHER;
                continue;
            }
            should = pre ? !!(table[j].flags & SPIFOPT_FLAG_PREPARSE) : !(table[j].flags & SPIFOPT_FLAG_PREPARSE);
            if (table[j].flags & SPIFOPT_FLAG_BOOLEAN) {
                r_apply(r, j, 0, should, table[j].mask, 1, argc, orig, 0, 0);   /* a short boolean is a switch: on */
                continue;
            }
            /* the option takes (or may take) a value: the rest of this word, else the next word */
            if (w[k + 1]) {
                val = w + k + 1;
            } else {
                val = next;
                took_next = (val != 0);
            }
            if ((table[j].flags & SPIFOPT_FLAG_ABSTRACT) && took_next && val[0] == '-' && val[1]) {
                if (r_is_option(val)) {
                    val = 0; took_next = 0;
                } else {
                    r->ambiguous = 1;
                }
            }
            if ((table[j].flags & SPIFOPT_FLAG_TYPEMASK_VALUE) && !val) {
                r->bad++;
                r->word[i] = EITHER;
                break;
            }
            if (took_next) {
                r->word[i + 1] = DROP;
            }
            if (table[j].flags & SPIFOPT_FLAG_ARGLIST) {
                /* the list starts with the value word and runs to the end of the line */
                int from = took_next ? i + 1 : i;

                if (!took_next) {
                    r->ambiguous = 1;                   /* -eVALUE: attached first word, reading left open */
                }
                r_apply(r, j, val, should, 0, 0, argc, orig, from, 0);
                for (k = i + 1; k < argc; k++) {
                    r->word[k] = DROP;
                }
                return;
            }
            r_apply(r, j, val, should, 0, 0, argc, orig, 0, 0);
            if (!val) {
                continue;                               /* abstract option without a value: next letter */
            }
            break;                                      /* the value ended this word */
        }
        i += 1 + took_next;
    }
}

/* ---------------------------------------------------------------- harness */
static void
h_parse(int tv, int len, int code, int st)
{
    char **argv, *orig[MAXW + 2];
    int tok[MAXW], argc = len + 1, i, k, pre, rem, kept;
    spif_uint32_t m0 = V_U32(), m1 = V_U32(), m2 = V_U32();
    unsigned long f1_0 = (unsigned long) V_LONG(), f2_0 = (unsigned long) V_LONG();
    int n0 = (int) V_RANGE(-5, 5), c0 = (int) V_RANGE(-5, 5);
    /* the settings are a shape: a symbolic remove-args or pre-parse bit decides whether argv[i] is overwritten, and a
     * symbolic pointer in argv[i] makes the parser's own cursor test (opt == argv[i]) undecidable for symbolic
     * execution - the cursor then becomes symbolic and no query finishes (measured: 120 s timeouts) */
    unsigned settings = (unsigned) st;
    static char s_sentinel[2] = "S";
    static char *e_sentinel[1] = { 0 };
    reading_t r;

    for (i = 0; i < len; i++, code /= NTOK) {
        tok[i] = code % NTOK;
    }
    mk_table(tv, m0, m1, m2);
    argv = (char **) malloc(sizeof(char *) * (size_t) (argc + 1));
    argv[0] = orig[0] = (char *) verif_tight_text((const unsigned char *) "prog", 4);
    for (i = 0; i < len; i++) {
        const char *t = tokens[tok[i]];

        argv[i + 1] = orig[i + 1] = (char *) verif_tight_text((const unsigned char *) t, (int) strlen(t));
    }
    argv[argc] = orig[argc] = 0;

    F1 = f1_0; F2 = f2_0; N = n0; C = c0; S = s_sentinel; E = e_sentinel;
    abst_calls = 0; abst_arg = 0; help_calls = 0;
    SPIFOPT_OPTLIST_SET(table);
    SPIFOPT_NUMOPTS_SET(NOPT);
    SPIFOPT_ALLOWBAD_SET(200);
    SPIFOPT_BADOPTS_SET(0);
    SPIFOPT_HELPHANDLER_SET(verif_help);
    spifopt_settings.flags = (spif_uint8_t) settings;
    pre = (settings & SPIFOPT_SETTING_PREPARSE) != 0;
    rem = (settings & SPIFOPT_SETTING_REMOVE_ARGS) != 0;

    spifopt_parse(argc, argv);

    /* ---- the ideal reading of the same line */
    memset(&r, 0, sizeof(r));
    r.f1 = f1_0; r.f2 = f2_0;
    ref_parse(&r, argc, orig, pre);

    CHECK("boolean options touch exactly their own mask bits, later occurrences override earlier ones", F1 == r.f1);
    CHECK("boolean options of the second flag word: exactly their own mask bits", F2 == r.f2);
    CHECK("integer option holds the last value given on the line (or is untouched)", N == (r.n_set ? r.n_val : n0));
    CHECK("long-only integer option holds the last value given (or is untouched)", C == (r.c_set ? r.c_val : c0));
    if (r.s_set) {
        CHECK("string option holds a copy of the last value given", S != s_sentinel && S != 0 && !strcmp(S, r.s_val));
    } else {
        CHECK("string option of the other pass / not on the line is left alone", S == s_sentinel);
    }
    if (r.e_set) {
        CHECK("argument-list option is assigned a list", E != e_sentinel && E != 0);
        if (E != e_sentinel && E != 0 && !r.ambiguous) {
            for (k = 0; k < r.e_cnt; k++) {
                CHECK("argument list holds the swallowed words in order", E[k] != 0 && !strcmp(E[k], r.e_word[k]));
            }
            CHECK("argument list is NULL-terminated after the last swallowed word", E[r.e_cnt] == 0);
        }
    } else {
        CHECK("argument-list option of the other pass / not on the line is left alone", E == e_sentinel);
    }
    CHECK("abstract option handler runs once per occurrence in its own pass only", abst_calls == r.t_calls);
    if (r.t_calls) {
        CHECK("abstract handler receives the option's value", (abst_arg == 0) == (r.t_arg == 0) && (!abst_arg || !strcmp(abst_arg, r.t_arg)));
    }
    if (!r.ambiguous) {
        if (r.bad == 0) {
            CHECK("a well-formed command line counts no bad options", SPIFOPT_BADOPTS_GET() == 0);
        } else {
            CHECK("malformed items are counted as bad options", SPIFOPT_BADOPTS_GET() >= 1);
        }
    }
    CHECK("the help handler is not invoked below the bad-option limit", help_calls == 0);
    if (argc > 1) {
        CHECK("the pre-parse flag is consumed by the pass, other settings stay", spifopt_settings.flags == (settings & ~SPIFOPT_SETTING_PREPARSE));
    }

    /* ---- argv afterwards */
    CHECK("program name untouched", argv[0] == orig[0]);
    if (pre || !rem || argc <= 1) {
        for (i = 1; i <= argc; i++) {
            CHECK("argv is untouched unless argument removal is on in the normal pass", argv[i] == orig[i]);
        }
    } else {
        int definite = 1;

        for (i = 1; i < argc; i++) {
            if (r.word[i] == EITHER) {
                definite = 0;
            }
        }
        if (definite) {
            for (i = 1, kept = 1; i < argc; i++) {
                if (r.word[i] == KEEP) {
                    CHECK("after removal argv holds the non-option words in their original order", argv[kept] == orig[i]);
                    kept++;
                }
            }
            CHECK("after removal argv is NULL-terminated right after the last non-option word", argv[kept] == 0);
        } else {
            /* words the reading leaves open may stay or go; the plain words must survive in order */
            int pos = 1;

            for (i = 1; i < argc; i++) {
                if (r.word[i] == KEEP) {
                    while (pos <= argc && argv[pos] != orig[i] && argv[pos] != 0) {
                        pos++;
                    }
                    CHECK("non-option words survive removal in their original order", pos <= argc && argv[pos] == orig[i]);
                    pos++;
                }
            }
        }
    }
    for (i = 1; i < argc; i++) {
        CHECK("the words themselves are never modified", !strcmp(orig[i], tokens[tok[i - 1]]));
    }
    WITNESS();
}

#include VERIF_ENTRIES
