/* C02: array, linked_list and dlinked_list are the same abstract sequence.
 * One inductive step per operation from an arbitrary valid state (n slots, each a
 * NULL placeholder or an element with a symbolic value 0..3), compared with an ideal
 * sequence; read back through get(i), i in [-n, n], and through a fresh iterator. */
#include "containers.h"

static void
finish(int cls, spif_obj_t c, const seq *s)
{
    check_rep(cls, c, s);
    check_list_api(c, s);
    WITNESS();
}

/* op: 0 append, 1 prepend */
static void
h_push(int cls, int n, int op)
{
    seq s;
    spif_obj_t c = mk_list(cls, 0, n, -1, &s);
    int v = (int) V_RANGE(0, 3);
    spif_obj_t x = (spif_obj_t) vint_new_v(v);
    spif_bool_t r;

    if (op == 0) {
        r = SPIF_LIST_APPEND(SPIF_LIST(c), x);
        seq_insert(&s, s.n, v, x);
    } else {
        r = SPIF_LIST_PREPEND(SPIF_LIST(c), x);
        seq_insert(&s, 0, v, x);
    }
    CHECK("append/prepend returns TRUE", r == TRUE);
    finish(cls, c, &s);
}

static void
h_insert_at(int cls, int n, int idx)
{
    seq s;
    spif_obj_t c = mk_list(cls, 0, n, -1, &s);
    int v = (int) V_RANGE(0, 3), pos = (idx < 0) ? idx + n : idx;
    spif_obj_t x = (spif_obj_t) vint_new_v(v);
    spif_bool_t r = SPIF_LIST_INSERT_AT(SPIF_LIST(c), x, idx);

    if (pos < 0) {
        CHECK("insert_at: position normalising below zero is refused", r == FALSE);
    } else {
        CHECK("insert_at: valid position accepted", r == TRUE);
        while (s.n < pos) {
            seq_insert(&s, s.n, PH, (spif_obj_t) NULL);       /* grown with NULL placeholders */
        }
        seq_insert(&s, pos, v, x);
    }
    finish(cls, c, &s);
}

static void
h_remove_at(int cls, int n, int idx)
{
    seq s;
    spif_obj_t c = mk_list(cls, 0, n, -1, &s);
    int pos = (idx < 0) ? idx + n : idx;
    spif_obj_t r = SPIF_LIST_REMOVE_AT(SPIF_LIST(c), idx);

    if (pos < 0 || pos >= n) {
        CHECK("remove_at: position outside the list is refused", r == NULL);
    } else {
        CHECK("remove_at: returns the element at that position", r == s.o[pos]);
        seq_remove(&s, pos);
    }
    finish(cls, c, &s);
}

/* queries by value with a symbolic probe value 0..3 */
static void
h_by_value(int cls, int n, int op, int phmask)
{
    seq s;
    spif_obj_t c = mk_list(cls, 0, n, phmask, &s);
    int v = (int) V_RANGE(0, 3), first = -1, i;
    spif_obj_t probe = (spif_obj_t) vint_new_v(v), r;

    for (i = 0; i < n; i++) {
        if (s.v[i] == v && first < 0) {
            first = i;
        }
    }
    switch (op) {
        case 0:
            CHECK("index: first position of an equal element, -1 when absent", SPIF_LIST_INDEX(SPIF_LIST(c), probe) == first);
            break;
        case 1:
            r = SPIF_LIST_FIND(SPIF_LIST(c), probe);
            CHECK("find: the first stored element equal to the probe, NULL when absent", r == ((first < 0) ? (spif_obj_t) NULL : s.o[first]));
            break;
        case 2:
            CHECK("contains: true iff an equal element is stored", (SPIF_LIST_CONTAINS(SPIF_LIST(c), probe) != FALSE) == (first >= 0));
            break;
    }
    finish(cls, c, &s);
}

/* remove by value.  Which slot goes decides a block-move size (array) and which node is freed
 * (lists), so the equality pattern is a shape: digit i of `pattern` (base 3) makes slot i
 * 0 = an element different from the probe, 1 = an element equal to it, 2 = a NULL placeholder. */
static void
h_remove(int cls, int n, int pattern)
{
    seq s;
    spif_obj_t c = new_container(cls, 0), probe = (spif_obj_t) vint_new_v(1), r;
    int i, first = -1, p = pattern;

    s.n = n;
    for (i = 0; i < n; i++, p /= 3) {
        int kind = p % 3;

        s.v[i] = (kind == 2) ? PH : ((kind == 1) ? 1 : ((i & 1) ? 2 : 0));
        s.o[i] = (kind == 2) ? (spif_obj_t) NULL : (spif_obj_t) vint_new_v(s.v[i]);
        if (kind == 1 && first < 0) {
            first = i;
        }
    }
    fill_container(cls, c, &s);
    r = SPIF_LIST_REMOVE(SPIF_LIST(c), probe);
    CHECK("remove: hands back the first stored element equal to the probe, NULL when absent", r == ((first < 0) ? (spif_obj_t) NULL : s.o[first]));
    if (first >= 0) {
        seq_remove(&s, first);
    }
    finish(cls, c, &s);
}

static void
h_reverse(int cls, int n)
{
    seq s, r;
    spif_obj_t c = mk_list(cls, 0, n, -1, &s);
    int i;

    CHECK("reverse returns TRUE", SPIF_LIST_REVERSE(SPIF_LIST(c)) == TRUE);
    r.n = n;
    for (i = 0; i < n; i++) {
        r.v[i] = s.v[n - 1 - i];
        r.o[i] = s.o[n - 1 - i];
    }
    finish(cls, c, &r);
}

static void
h_to_array(int cls, int n)
{
    seq s;
    spif_obj_t c = mk_list(cls, 0, n, -1, &s);
    spif_obj_t *a = SPIF_LIST_TO_ARRAY(SPIF_LIST(c));
    int i;

    if (n > 0) {
        CHECK("to_array returns an array", a != NULL);
        CHECK("to_array: room for count elements", a == NULL || OBJ_SIZE(a) >= sizeof(spif_obj_t) * (size_t) n);
        for (i = 0; i < n && a; i++) {
            CHECK("to_array: elements in order", a[i] == s.o[i]);
        }
    }
    finish(cls, c, &s);
}

static void
h_dup(int cls, int n, int phmask)
{
    seq s;
    spif_obj_t c = mk_list(cls, 0, n, phmask, &s), d;
    int i;

    d = SPIF_OBJ_DUP(c);
    CHECK("dup returns a container", d != NULL);
    if (d) {
        CHECK("dup is a distinct object of the same class", d != c && SPIF_OBJ_CLASS(d) == SPIF_OBJ_CLASS(c));
        CHECK("dup: same count", SPIF_LIST_COUNT(SPIF_LIST(d)) == n);
        for (i = 0; i < n; i++) {
            spif_obj_t e = SPIF_LIST_GET(SPIF_LIST(d), i);

            if (s.v[i] == PH) {
                CHECK("dup: placeholder stays a placeholder", e == NULL);
            } else {
                CHECK("dup: element copied (own object, equal value)", e != NULL && e != s.o[i] && VINT(e)->v == s.v[i]);
            }
        }
        {
            /* the copy's own representation must be a valid one */
            seq ds;

            ds.n = n;
            for (i = 0; i < n; i++) {
                ds.v[i] = s.v[i];
                ds.o[i] = SPIF_LIST_GET(SPIF_LIST(d), i);
            }
            check_rep(cls, d, &ds);
        }
    }
    finish(cls, c, &s);
}

static void
h_new(int cls)
{
    seq s;
    spif_obj_t c = new_container(cls, 0);

    s.n = 0;
    finish(cls, c, &s);
}

#include VERIF_ENTRIES
