/* C18: built-in hashes equal independently written reference definitions, read
 * exactly `length` key bytes, and do not depend on key placement. */
#ifdef HAVE_CONFIG_H
# include <config.h>
#endif
#include <libast_internal.h>
#include "common.h"

#define INIT_AB 0xf721b64dU       /* libast's documented initial value for a and b */

static uint32_t
le32(const uint8_t *p)
{
    return (uint32_t) p[0] | ((uint32_t) p[1] << 8) | ((uint32_t) p[2] << 16) | ((uint32_t) p[3] << 24);
}

static void
ref_mix(uint32_t *pa, uint32_t *pb, uint32_t *pc)
{
    static const struct { int right; int sh; } step[9] = {
        {1, 13}, {0, 8}, {1, 13}, {1, 12}, {0, 16}, {1, 5}, {1, 3}, {0, 10}, {1, 15}
    };
    uint32_t v[3];
    int i;

    v[0] = *pa; v[1] = *pb; v[2] = *pc;
    for (i = 0; i < 9; i++) {
        int x = i % 3, y = (i + 1) % 3, z = (i + 2) % 3;   /* x -= y; x -= z; x ^= z shifted */
        v[x] = v[x] - v[y] - v[z];
        v[x] ^= step[i].right ? (v[z] >> step[i].sh) : (v[z] << step[i].sh);
    }
    *pa = v[0]; *pb = v[1]; *pc = v[2];
}

/* lookup2 (Bob Jenkins, 1996), byte-wise definition */
static uint32_t
ref_lookup2(const uint8_t *k, uint32_t n, uint32_t seed)
{
    uint32_t a = INIT_AB, b = INIT_AB, c = seed, pos = 0, rem, i;

    for (; n - pos >= 12; pos += 12) {
        a += le32(k + pos);
        b += le32(k + pos + 4);
        c += le32(k + pos + 8);
        ref_mix(&a, &b, &c);
    }
    rem = n - pos;
    c += n;
    for (i = 0; i < rem; i++) {
        uint32_t byte = k[pos + i];

        if (i < 4) {
            a += byte << (8 * i);
        } else if (i < 8) {
            b += byte << (8 * (i - 4));
        } else {
            c += byte << (8 * (i - 8 + 1));      /* low byte of c is reserved for the length */
        }
    }
    ref_mix(&a, &b, &c);
    return c;
}

/* lookup2 hash2(): key is n 32-bit words (host order; this host is little-endian) */
static uint32_t
ref_lookup2_words(const uint8_t *k, uint32_t n, uint32_t seed)
{
    uint32_t a = INIT_AB, b = INIT_AB, c = seed, pos = 0;

    for (; n - pos >= 3; pos += 3) {
        a += le32(k + 4 * pos);
        b += le32(k + 4 * pos + 4);
        c += le32(k + 4 * pos + 8);
        ref_mix(&a, &b, &c);
    }
    c += n;
    if (n - pos == 2) {
        b += le32(k + 4 * pos + 4);
    }
    if (n - pos >= 1) {
        a += le32(k + 4 * pos);
    }
    ref_mix(&a, &b, &c);
    return c;
}

static uint32_t
ref_rotating(const uint8_t *k, uint32_t n, uint32_t seed)
{
    uint32_t h = seed ? seed : INIT_AB, i;

    for (i = 0; i < n; i++) {
        h = ((h << 4) | (h >> 28)) ^ k[i];          /* rotate left by 4, xor byte */
    }
    return h ^ (h >> 10) ^ (h >> 20);
}

static uint32_t
ref_oaat(const uint8_t *k, uint32_t n, uint32_t seed)
{
    uint32_t h = seed ? seed : INIT_AB, i;

    for (i = 0; i < n; i++) {
        h += k[i];
        h *= 1025u;               /* h += h << 10 */
        h ^= h >> 6;
    }
    h *= 9u;                      /* h += h << 3 */
    h ^= h >> 11;
    h *= 32769u;                  /* h += h << 15 */
    return h;
}

static uint32_t
ref_fnv(const uint8_t *k, uint32_t n, uint32_t seed)
{
    uint32_t h = seed ? seed : 0x811c9dc5u, i;

    for (i = 0; i < n; i++) {
        h ^= k[i];
        h *= 0x01000193u;         /* the 32-bit FNV prime, as a multiplication */
    }
    return h;
}

#define FN_JENKINS   0
#define FN_JENKINSLE 1
#define FN_JENKINS32 2
#define FN_ROTATING  3
#define FN_OAAT      4
#define FN_FNV       5

/* fn: which hash; n: key length (bytes, or words for jenkins32); off: placement offset in the object */
static void
h_hash(int fn, int n, int off, int seed_zero)
{
    int nbytes = (fn == FN_JENKINS32) ? 4 * n : n;
    uint8_t copy[112];
    uint8_t *obj = (uint8_t *) malloc((size_t) (off + nbytes));   /* exactly off+nbytes: over-read = bounds failure */
    uint8_t *key = obj + off;
    uint32_t seed, got = 0, want = 0;
    int i;

    for (i = 0; i < nbytes; i++) {
        copy[i] = key[i] = V_BYTE();
    }
    seed = seed_zero ? 0 : V_U32();
    switch (fn) {
        case FN_JENKINS:   got = spifhash_jenkins(key, (spif_uint32_t) n, seed);       want = ref_lookup2(copy, (uint32_t) n, seed); break;
        case FN_JENKINSLE: got = spifhash_jenkinsLE(key, (spif_uint32_t) n, seed);     want = ref_lookup2(copy, (uint32_t) n, seed); break;
        case FN_JENKINS32: got = spifhash_jenkins32(key, (spif_uint32_t) n, seed);     want = ref_lookup2_words(copy, (uint32_t) n, seed); break;
        case FN_ROTATING:  got = spifhash_rotating(key, (spif_uint32_t) n, seed);      want = ref_rotating(copy, (uint32_t) n, seed); break;
        case FN_OAAT:      got = spifhash_one_at_a_time(key, (spif_uint32_t) n, seed); want = ref_oaat(copy, (uint32_t) n, seed); break;
        case FN_FNV:       got = spifhash_fnv(key, (spif_uint32_t) n, seed);           want = ref_fnv(copy, (uint32_t) n, seed); break;
    }
    CHECK("hash equals reference definition", got == want);
    for (i = 0; i < nbytes; i++) {
        CHECK("key bytes not modified", key[i] == copy[i]);
    }
    WITNESS();
    free(obj);
}

/* one mixing round from an arbitrary 32-bit state: covers keys longer than the
 * decided length for the round function (compositional part of the claim) */
static void
h_mix(void)
{
    uint32_t a = V_U32(), b = V_U32(), c = V_U32();
    uint32_t ra = a, rb = b, rc = c;

    SPIFHASH_JENKINS_MIX(a, b, c);
    ref_mix(&ra, &rb, &rc);
    CHECK("mix round equals reference", a == ra && b == rb && c == rc);
    WITNESS();
}

#include VERIF_ENTRIES
