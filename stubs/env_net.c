/* Name-service stubs: every lookup independently fails or succeeds with arbitrary data. */
#include <netdb.h>
#include <string.h>
#include "common.h"

int verif_lookup_calls;
int verif_proto_found, verif_serv_found, verif_proto_after_serv;       /* outcome of the most recent lookups, for the oracle */
static struct protoent verif_protoent;
static struct servent verif_servent;
static char verif_tcp[] = "tcp";
int verif_serv_port_net;                         /* s_port as stored (network byte order) */

struct protoent *
getprotobyname(const char *name)
{
    (void) name;
    verif_lookup_calls++;
    if (V_BOOL()) {
        verif_protoent.p_name = verif_tcp;
        verif_protoent.p_proto = 6;
        verif_proto_found = 1;
        if (verif_serv_found) {
            verif_proto_after_serv = 1;
        }
        return &verif_protoent;
    }
    return (struct protoent *) 0;
}

struct servent *
getservbyname(const char *name, const char *proto)
{
    (void) name; (void) proto;
    verif_lookup_calls++;
    if (V_BOOL()) {
        verif_serv_port_net = (int) V_RANGE(0, 65535);
        verif_servent.s_name = verif_tcp;
        verif_servent.s_proto = verif_tcp;
        verif_servent.s_port = verif_serv_port_net;
        verif_serv_found = 1;
        return &verif_servent;
    }
    return (struct servent *) 0;
}
