/* Word-preserving model of memmove() for the container families (CBMC only).
 *
 * CBMC's built-in models copy through byte arrays (array_copy/array_replace, memcpy).  For arrays of
 * object pointers (array.c) that (a) was observed to leave the destination unchanged for an 8-byte
 * overlapping move (a counterexample that does not reproduce natively) .  This model moves whole
 * pointer-sized words when size and offsets allow, and bytes otherwise.  (A realloc model on the same
 * lines is not possible: the old size is only known to the solver, not to symex.)  Sizes beyond the temporary
 * fail an assertion instead of being truncated. */
#ifndef REPLAY
#include <stddef.h>
#include <stdlib.h>

#define WMAX 20
#define BMAX 160

static void
verif_copy(void *dest, const void *src, size_t n)
{
    size_t i;

    __CPROVER_assert(n <= BMAX, "memmove/realloc model: length within the modelled bound");
    if (n % sizeof(void *) == 0 && __CPROVER_POINTER_OFFSET(dest) % sizeof(void *) == 0
        && __CPROVER_POINTER_OFFSET(src) % sizeof(void *) == 0) {
        void *wtmp[WMAX];
        size_t w = n / sizeof(void *);

        for (i = 0; i < w && i < WMAX; i++) {
            wtmp[i] = ((void *const *) src)[i];
        }
        for (i = 0; i < w && i < WMAX; i++) {
            ((void **) dest)[i] = wtmp[i];
        }
    } else {
        unsigned char tmp[BMAX];

        for (i = 0; i < n && i < BMAX; i++) {
            tmp[i] = ((const unsigned char *) src)[i];
        }
        for (i = 0; i < n && i < BMAX; i++) {
            ((unsigned char *) dest)[i] = tmp[i];
        }
    }
}

void *
memmove(void *dest, const void *src, size_t n)
{
    if (n) {
        verif_copy(dest, src, n);
    }
    return dest;
}
#endif
