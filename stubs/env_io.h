#ifndef VERIF_ENV_IO_H
#define VERIF_ENV_IO_H
/* Environment model for descriptor / stream input: a payload of verif_payload_len bytes,
 * delivered according to a per-call schedule.  Set by the harness before the call. */
#define VERIF_PAYLOAD_MAX 64
#define VERIF_SCHED_MAX 8
#define VERIF_IO_COMPLETE 0      /* as many bytes as requested/available            */
#define VERIF_IO_EINTR   (-1)    /* return -1, errno = EINTR, nothing transferred    */
#define VERIF_IO_EAGAIN  (-2)    /* return -1, errno = EAGAIN                        */
#define VERIF_IO_ERROR   (-3)    /* return -1, errno = EIO                           */
#define VERIF_IO_ERROR2  (-4)    /* return -1, errno = ENOBUFS (an error with no arm of its own) */
/* k > 0: short transfer of at most k bytes */
extern unsigned char verif_payload[VERIF_PAYLOAD_MAX];
extern int verif_payload_len, verif_payload_pos;
extern int verif_sched[VERIF_SCHED_MAX], verif_sched_n, verif_io_calls;
extern int verif_seekable, verif_eof_flag, verif_io_active;
extern int verif_file_obj;
/* write side (sockets): bytes accepted by write() */
extern unsigned char verif_sink[VERIF_PAYLOAD_MAX];
extern int verif_sink_len, verif_wsched[VERIF_SCHED_MAX], verif_wsched_n, verif_write_calls;
#define VERIF_FP ((FILE *) (void *) &verif_file_obj)
/* a second stream (an %included file): its own payload */
extern unsigned char verif_payload2[VERIF_PAYLOAD_MAX];
extern int verif_payload2_len, verif_payload2_pos, verif_file_obj2;
#define VERIF_FP2 ((FILE *) (void *) &verif_file_obj2)
#endif
