/* Stubs for read/fgets/fread/feof/ferror/ftell/fseek/lseek/write/select over a harness payload. */
#include <stdio.h>
#include <errno.h>
#include <string.h>
#include <unistd.h>
#include <sys/types.h>
#include <sys/select.h>
#include "common.h"
#include "env_io.h"

unsigned char verif_payload[VERIF_PAYLOAD_MAX];
int verif_payload_len, verif_payload_pos;
int verif_sched[VERIF_SCHED_MAX], verif_sched_n, verif_io_calls;
int verif_seekable, verif_eof_flag, verif_io_active;
int verif_file_obj;
unsigned char verif_payload2[VERIF_PAYLOAD_MAX];
int verif_payload2_len, verif_payload2_pos, verif_file_obj2;
unsigned char verif_sink[VERIF_PAYLOAD_MAX];
int verif_sink_len, verif_wsched[VERIF_SCHED_MAX], verif_wsched_n, verif_write_calls;

#ifdef REPLAY
# define _GNU_SOURCE_DL 1
# include <dlfcn.h>
#endif

static int
next_kind(void)
{
    int k = (verif_io_calls < verif_sched_n && verif_io_calls < VERIF_SCHED_MAX) ? verif_sched[verif_io_calls] : VERIF_IO_COMPLETE;

    verif_io_calls++;
    return k;
}

static int
io_error(int kind)
{
    errno = (kind == VERIF_IO_EINTR) ? EINTR : ((kind == VERIF_IO_EAGAIN) ? EAGAIN : ((kind == VERIF_IO_ERROR) ? EIO : ENOBUFS));
    return -1;
}

ssize_t
read(int fd, void *buf, size_t count)
{
    int kind, avail, n, i;

#ifdef REPLAY
    if (!verif_io_active) {
        ssize_t (*real)(int, void *, size_t) = (ssize_t (*)(int, void *, size_t)) dlsym(RTLD_NEXT, "read");
        return real(fd, buf, count);
    }
#endif
    (void) fd;
    kind = next_kind();
    if (kind < 0) {
        return io_error(kind);
    }
    avail = verif_payload_len - verif_payload_pos;
    n = (count < (size_t) avail) ? (int) count : avail;
    if (kind > 0 && kind < n) {
        n = kind;
    }
    for (i = 0; i < n; i++) {
        ((unsigned char *) buf)[i] = verif_payload[verif_payload_pos + i];
    }
    verif_payload_pos += n;
    return n;
}

char *
fgets(char *s, int size, FILE *fp)
{
    int i = 0;

    verif_io_calls++;
    if (size <= 0) {
        return (char *) 0;
    }
    if (fp == VERIF_FP2) {
        while (i < size - 1 && verif_payload2_pos < verif_payload2_len) {
            unsigned char c = verif_payload2[verif_payload2_pos++];

            s[i++] = (char) c;
            if (c == '\n') {
                break;
            }
        }
        if (i == 0) {
            return (char *) 0;
        }
        s[i] = 0;
        return s;
    }
    while (i < size - 1 && verif_payload_pos < verif_payload_len) {
        unsigned char c = verif_payload[verif_payload_pos++];

        s[i++] = (char) c;
        if (c == '\n') {
            break;
        }
    }
    if (i == 0) {
        verif_eof_flag = 1;
        return (char *) 0;
    }
    s[i] = 0;
    return s;
}

size_t
fread(void *ptr, size_t size, size_t nmemb, FILE *fp)
{
    size_t want = size * nmemb, avail = (size_t) (verif_payload_len - verif_payload_pos), n, i;
    int kind = next_kind();

    (void) fp;
    if (size == 0 || nmemb == 0) {
        return 0;
    }
    n = (want < avail) ? want : avail;
    if (kind > 0 && (size_t) kind < n) {
        n = (size_t) kind;
    }
    n -= n % size;
    for (i = 0; i < n; i++) {
        ((unsigned char *) ptr)[i] = verif_payload[verif_payload_pos + (int) i];
    }
    verif_payload_pos += (int) n;
    if (verif_payload_pos >= verif_payload_len) {
        verif_eof_flag = 1;
    }
    return n / size;
}

int
feof(FILE *fp)
{
    (void) fp;
    return verif_eof_flag;
}

int
ferror(FILE *fp)
{
    (void) fp;
    return 0;
}

long
ftell(FILE *fp)
{
    (void) fp;
    if (!verif_seekable) {
        errno = ESPIPE;
        return -1L;
    }
    return (long) verif_payload_pos;
}

int
fseek(FILE *fp, long off, int whence)
{
    (void) fp;
    if (!verif_seekable) {
        errno = ESPIPE;
        return -1;
    }
    verif_payload_pos = (int) ((whence == SEEK_END) ? verif_payload_len + off : ((whence == SEEK_CUR) ? verif_payload_pos + off : off));
    verif_eof_flag = 0;
    return 0;
}

off_t
lseek(int fd, off_t off, int whence)
{
    (void) fd;
    if (!verif_seekable) {
        errno = ESPIPE;
        return (off_t) -1;
    }
    verif_payload_pos = (int) ((whence == SEEK_END) ? verif_payload_len + off : ((whence == SEEK_CUR) ? verif_payload_pos + off : off));
    return (off_t) verif_payload_pos;
}

ssize_t
write(int fd, const void *buf, size_t count)
{
    int kind, n, i;

#ifdef REPLAY
    if (!verif_io_active) {
        ssize_t (*real)(int, const void *, size_t) = (ssize_t (*)(int, const void *, size_t)) dlsym(RTLD_NEXT, "write");
        return real(fd, buf, count);
    }
#endif
    (void) fd;
    kind = (verif_write_calls < verif_wsched_n && verif_write_calls < VERIF_SCHED_MAX) ? verif_wsched[verif_write_calls] : VERIF_IO_COMPLETE;
    verif_write_calls++;
    if (kind < 0) {
        return io_error(kind);
    }
    n = (int) count;
    if (kind > 0 && kind < n) {
        n = kind;
    }
    for (i = 0; i < n && verif_sink_len < VERIF_PAYLOAD_MAX; i++) {
        verif_sink[verif_sink_len++] = ((const unsigned char *) buf)[i];
    }
    return n;
}
