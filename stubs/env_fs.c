/* File-system / process stubs for the config subsystem. */
#include <stdio.h>
#include <stdlib.h>
#include <unistd.h>
#include <string.h>
#include <errno.h>
#include <sys/stat.h>
#include <sys/types.h>
#include <dirent.h>
#include "common.h"
#include "env_io.h"

int verif_spawn_allowed;          /* set by the harness when the input legitimately asks for a process */
int verif_fcloses2;
int verif_spawns, verif_fopens, verif_fcloses, verif_umask_now = 022, verif_mkstemp_umask = -1, verif_fchmod_mode = -1;
char verif_mkstemp_template[300];

FILE *
fopen(const char *path, const char *mode)
{
    (void) path; (void) mode;
    /* the first file opened reads the payload, a second one (an %included file) the second payload */
    return (verif_fopens++ == 0) ? VERIF_FP : VERIF_FP2;
}

int
fclose(FILE *fp)
{
    verif_fcloses++;
    if (fp == VERIF_FP2) {
        verif_fcloses2++;
    }
    return 0;
}

FILE *
fdopen(int fd, const char *mode)
{
    (void) fd; (void) mode;
    return VERIF_FP;
}

int
remove(const char *path)
{
    (void) path;
    return 0;
}

int
chdir(const char *path)
{
    (void) path;
    return 0;
}

char *
getcwd(char *buf, size_t size)
{
    if (buf && size >= 2) {
        buf[0] = '/';
        buf[1] = 0;
    }
    return buf;
}

int
access(const char *path, int mode)
{
    (void) path; (void) mode;
    return V_BOOL() ? 0 : -1;
}

int
stat(const char *path, struct stat *st)
{
    (void) path;
    if (V_BOOL()) {
        return -1;
    }
    st->st_mode = V_BOOL() ? (S_IFDIR | 0755) : (S_IFREG | 0644);
    return 0;
}

int
system(const char *cmd)
{
    (void) cmd;
    verif_spawns++;
    CHECK("a process is spawned only for a backquote, %exec or %preproc directive", verif_spawn_allowed);
    return 0;
}

FILE *
popen(const char *cmd, const char *mode)
{
    (void) cmd; (void) mode;
    verif_spawns++;
    CHECK("a process is spawned only for a backquote, %exec or %preproc directive", verif_spawn_allowed);
    return (FILE *) 0;
}

pid_t
fork(void)
{
    verif_spawns++;
    CHECK("a process is spawned only for a backquote, %exec or %preproc directive", verif_spawn_allowed);
    return (pid_t) -1;
}

mode_t
umask(mode_t m)
{
    mode_t old = (mode_t) verif_umask_now;

    verif_umask_now = (int) m;
    return old;
}

int
mkstemp(char *tmpl)
{
    size_t i;

    verif_mkstemp_umask = verif_umask_now;
    for (i = 0; tmpl[i] && i < sizeof(verif_mkstemp_template) - 1; i++) {
        verif_mkstemp_template[i] = tmpl[i];
    }
    verif_mkstemp_template[i] = 0;
    if (i < 6 || tmpl[i - 1] != 'X' || tmpl[i - 2] != 'X' || tmpl[i - 3] != 'X' || tmpl[i - 4] != 'X' || tmpl[i - 5] != 'X' || tmpl[i - 6] != 'X') {
        errno = EINVAL;             /* mkstemp's contract: the template must end in XXXXXX */
        return -1;
    }
    return V_BOOL() ? -1 : 7;
}

int
fchmod(int fd, mode_t mode)
{
    (void) fd;
    verif_fchmod_mode = (int) mode;
    return V_BOOL() ? -1 : 0;
}
