/* PCRE is outside the subject: compile yields a fresh block (recording its options) or NULL, exec an arbitrary result. */
#include <stdlib.h>
#include "common.h"

void *
pcre_compile(const char *pattern, int options, const char **errptr, int *erroffset, const unsigned char *tableptr)
{
    (void) tableptr;
    if (V_BOOL()) {
        /* the "compiled pattern" records what it was compiled from: the options and the first pattern byte */
        int *blk = (int *) malloc(8);

        blk[0] = options;
        blk[1] = pattern ? (int) (unsigned char) pattern[0] : -1;
        return blk;
    }
    if (errptr) {
        *errptr = "stub";
    }
    if (erroffset) {
        *erroffset = 0;
    }
    return (void *) 0;
}

int
pcre_exec(const void *code, const void *extra, const char *subject, int length, int startoffset, int options, int *ovector, int ovecsize)
{
    (void) code; (void) extra; (void) subject; (void) length; (void) startoffset; (void) options; (void) ovector; (void) ovecsize;
    return (int) V_RANGE(-3, 1);
}
