/* Reference bodies for libc functions CBMC 6.11 ships no model for.  CBMC only:
 * the native replay links the real libc. */
#ifndef REPLAY
#include <stddef.h>
#include <limits.h>
#include <errno.h>

static const unsigned short verif_ctype_tab[384] = {
#include "ctype_table.inc"
};
static const unsigned short *verif_ctype_ptr = verif_ctype_tab + 128;

const unsigned short **
__ctype_b_loc(void)
{
    return &verif_ctype_ptr;
}

size_t
strnlen(const char *s, size_t maxlen)
{
    size_t n = 0;

    while (n < maxlen && s[n]) {
        n++;
    }
    return n;
}

char *
index(const char *s, int c)
{
    for (;; s++) {
        if (*s == (char) c) {
            return (char *) s;
        }
        if (!*s) {
            return (char *) 0;
        }
    }
}

char *
rindex(const char *s, int c)
{
    const char *r = (const char *) 0;

    for (;; s++) {
        if (*s == (char) c) {
            r = s;
        }
        if (!*s) {
            return (char *) r;
        }
    }
}

char *
strstr(const char *h, const char *n)
{
    size_t i, j;

    if (!*n) {
        return (char *) h;
    }
    for (i = 0; h[i]; i++) {
        for (j = 0; n[j] && h[i + j] == n[j]; j++) ;
        if (!n[j]) {
            return (char *) (h + i);
        }
        if (!h[i + j]) {
            return (char *) 0;
        }
    }
    return (char *) 0;
}

void *
memmem(const void *hay, size_t hl, const void *needle, size_t nl)
{
    const unsigned char *h = (const unsigned char *) hay, *n = (const unsigned char *) needle;
    size_t i, j;

    if (nl == 0) {
        return (void *) h;
    }
    if (hl < nl) {
        return (void *) 0;
    }
    for (i = 0; i + nl <= hl; i++) {
        for (j = 0; j < nl && h[i + j] == n[j]; j++) ;
        if (j == nl) {
            return (void *) (h + i);
        }
    }
    return (void *) 0;
}

char *
strpbrk(const char *s, const char *accept)
{
    size_t j;

    for (; *s; s++) {
        for (j = 0; accept[j]; j++) {
            if (accept[j] == *s) {
                return (char *) s;
            }
        }
    }
    return (char *) 0;
}

size_t
strspn(const char *s, const char *accept)
{
    size_t n = 0, j;

    for (; s[n]; n++) {
        for (j = 0; accept[j] && accept[j] != s[n]; j++) ;
        if (!accept[j]) {
            break;
        }
    }
    return n;
}

/* decimal (base 10 or 0-without-prefix) digit-loop model, saturating; the
 * callers in libast pass base 10 or 0; other bases: result nondeterministic */
unsigned long nondet_ulong(void);

unsigned long
strtoul(const char *s, char **end, int base)
{
    unsigned long v = 0;
    int neg = 0, any = 0;
    const char *p = s;

    while (*p == ' ' || (*p >= '\t' && *p <= '\r')) {
        p++;
    }
    if (*p == '+' || *p == '-') {
        neg = (*p == '-');
        p++;
    }
    if (base != 10 && !(base == 0 && *p != '0')) {
        if (end) {
            *end = (char *) s;
        }
        return nondet_ulong();
    }
    for (; *p >= '0' && *p <= '9'; p++) {
        unsigned long d = (unsigned long) (*p - '0');

        any = 1;
        if (v > (ULONG_MAX - d) / 10) {
            v = ULONG_MAX;
        } else {
            v = v * 10 + d;
        }
    }
    if (end) {
        *end = (char *) (any ? p : s);
    }
    return neg ? (0UL - v) : v;
}
#endif

#ifndef REPLAY
long
strtol(const char *s, char **end, int base)
{
    unsigned long v = 0;
    int neg = 0, any = 0;
    const char *p = s;
    long nondet_long(void);

    while (*p == ' ' || (*p >= '\t' && *p <= '\r')) {
        p++;
    }
    if (*p == '+' || *p == '-') {
        neg = (*p == '-');
        p++;
    }
    if (base != 10 && !(base == 0 && *p != '0')) {
        if (end) {
            *end = (char *) s;
        }
        return nondet_long();
    }
    for (; *p >= '0' && *p <= '9'; p++) {
        unsigned long d = (unsigned long) (*p - '0');

        any = 1;
        if (v > ((unsigned long) LONG_MAX - d) / 10) {
            v = (unsigned long) LONG_MAX + (neg ? 1UL : 0UL);
        } else {
            v = v * 10 + d;
        }
    }
    if (end) {
        *end = (char *) (any ? p : s);
    }
    if (neg) {
        return (v > (unsigned long) LONG_MAX) ? LONG_MIN : -(long) v;
    }
    return (v > (unsigned long) LONG_MAX) ? LONG_MAX : (long) v;
}
#endif
