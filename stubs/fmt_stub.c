/* Exact mini-printf for the conversions libast's object code uses with small arguments:
 * %s %c %d %i %u %ld %lu %li %% (flags/width/precision are not supported: a conversion
 * outside this set makes the output nondeterministic, which any oracle comparison then
 * rejects - it cannot pass silently).  CBMC only; the native replay uses libc. */
#ifndef REPLAY
#include <stdarg.h>
#include <stddef.h>
#include <stdio.h>

unsigned char nondet_uchar(void);

static size_t
emit(char *buf, size_t size, size_t pos, char c)
{
    if (buf && pos + 1 < size) {
        buf[pos] = c;
    }
    return pos + 1;
}

static size_t
emit_ulong(char *buf, size_t size, size_t pos, unsigned long v)
{
    char tmp[24];
    int n = 0;

    do {
        tmp[n++] = (char) ('0' + (v % 10));
        v /= 10;
    } while (v && n < 24);
    while (n > 0) {
        pos = emit(buf, size, pos, tmp[--n]);
    }
    return pos;
}

int
vsnprintf(char *buf, size_t size, const char *fmt, va_list ap)
{
    size_t pos = 0;
    const char *p;

    for (p = fmt; *p; p++) {
        int lng = 0;

        if (*p != '%') {
            pos = emit(buf, size, pos, *p);
            continue;
        }
        p++;
        if (*p == 'l') {
            lng = 1;
            p++;
        }
        if (*p == '%') {
            pos = emit(buf, size, pos, '%');
        } else if (*p == 'c') {
            pos = emit(buf, size, pos, (char) va_arg(ap, int));
        } else if (*p == 's') {
            const char *s = va_arg(ap, const char *);

            if (!s) {
                s = "(null)";
            }
            for (; *s; s++) {
                pos = emit(buf, size, pos, *s);
            }
        } else if (*p == 'd' || *p == 'i') {
            long v;

            /* CBMC stores a variadic argument with its unpromoted type: an unsigned short such as
             * ntohs(port) is a 2-byte object, and reading it as int would be out of bounds */
            if (!lng && __CPROVER_OBJECT_SIZE(*(void **) ap) == sizeof(unsigned short)) {
                v = (long) va_arg(ap, unsigned short);
            } else {
                v = lng ? va_arg(ap, long) : (long) va_arg(ap, int);
            }

            if (v < 0) {
                pos = emit(buf, size, pos, '-');
                pos = emit_ulong(buf, size, pos, 0UL - (unsigned long) v);
            } else {
                pos = emit_ulong(buf, size, pos, (unsigned long) v);
            }
        } else if (*p == 'u') {
            pos = emit_ulong(buf, size, pos, lng ? va_arg(ap, unsigned long) : (unsigned long) va_arg(ap, unsigned int));
        } else {
            pos = emit(buf, size, pos, (char) nondet_uchar());
            if (!*p) {
                break;
            }
        }
    }
    if (buf && size) {
        buf[(pos < size) ? pos : size - 1] = 0;
    }
    return (int) pos;
}

int
snprintf(char *buf, size_t size, const char *fmt, ...)
{
    va_list ap;
    int n;

    va_start(ap, fmt);
    n = vsnprintf(buf, size, fmt, ap);
    va_end(ap);
    return n;
}
#endif
