/* The MALLOC/REALLOC/FREE/CALLOC/STRDUP macro text as compiled WITHOUT memory tracking
 * (DEBUG below DEBUG_MEM), exposed as functions so a DEBUG>=DEBUG_MEM harness can compare. */
#undef DEBUG
#define DEBUG 4
#ifdef HAVE_CONFIG_H
# include <config.h>
#endif
#include <libast_internal.h>

void *lo_malloc(size_t s) { return MALLOC(s); }
void *lo_realloc(void *m, size_t s) { return REALLOC(m, s); }
void *lo_calloc(size_t n) { return CALLOC(long, n); }
char *lo_strdup(const char *s) { return STRDUP(s); }
void *lo_free(void *p) { FREE(p); return p; }
