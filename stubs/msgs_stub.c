/* Replacement for src/msgs.c in families where output formatting is not the
 * subject: warnings/errors/debug output count a call and do nothing; the fatal
 * path records itself and ends the path (CBMC) or the process (replay). */
#ifdef HAVE_CONFIG_H
# include <config.h>
#endif
#include "libast_internal.h"
#include "common.h"
#include <stdarg.h>

#ifdef REPLAY
#include <unistd.h>
#endif

spif_charptr_t libast_program_name = (spif_charptr_t) "verif";
spif_charptr_t libast_program_version = (spif_charptr_t) "0.8.1";

int
libast_dprintf(const char *format, ...)
{
    (void) format;
    verif_out_calls++;
    return 0;
}

void
libast_print_error(const char *fmt, ...)
{
    (void) fmt;
    verif_out_calls++;
}

void
libast_print_warning(const char *fmt, ...)
{
    (void) fmt;
    verif_out_calls++;
}

void
libast_fatal_error(const char *fmt, ...)
{
    extern int verif_fatal_forbidden;

    CHECK("the fatal-error path is given a diagnostic", fmt != NULL);
    CHECK("the process is only ended where the contract allows it (never at debug level 0)", !verif_fatal_forbidden);
    verif_fatal_calls++;
    verif_exited = 1;
#ifdef REPLAY
    _exit(77);
#else
    __CPROVER_assume(0);
#endif
}

spif_bool_t
libast_set_silent(spif_bool_t flag)
{
    return flag;
}

void
libast_set_program_name(const char *n)
{
    (void) n;
}

void
libast_set_program_version(const char *n)
{
    (void) n;
}
