/* Output primitives below libast's message functions: count calls, print nothing.
 * exit(): a process end is legitimate only where the harness announced it (verif_fatal_allowed);
 * the path ends there. */
#include <stdio.h>
#include <stdarg.h>
#include <stdlib.h>
#include <time.h>
#include "common.h"

int verif_fatal_allowed;
int verif_fmt_null_seen;

int
vfprintf(FILE *fp, const char *fmt, va_list ap)
{
    (void) fp; (void) ap;
    if (!fmt) {
        verif_fmt_null_seen = 1;
    }
    verif_out_calls++;
    return 0;
}

int
fprintf(FILE *fp, const char *fmt, ...)
{
    (void) fp;
    if (!fmt) {
        verif_fmt_null_seen = 1;
    }
    verif_out_calls++;
    return 0;
}

int
fflush(FILE *fp)
{
    (void) fp;
    return 0;
}

time_t
time(time_t *t)
{
    if (t) {
        *t = 0;
    }
    return (time_t) 0;
}

void
exit(int status)
{
    (void) status;
    verif_exited = 1;
    CHECK("the process ends only through a failed ASSERT at runtime level >= 1", verif_fatal_allowed);
#ifdef REPLAY
    _Exit(verif_fatal_allowed ? 77 : 10);
#else
    __CPROVER_assume(0);
    while (1) { }
#endif
}
