/* Descriptor-level stubs for the socket API: a small fd table records what is open; every call
 * may fail nondeterministically within its documented contract. */
#include <sys/types.h>
#include <sys/socket.h>
#include <sys/select.h>
#include <unistd.h>
#include <fcntl.h>
#include <errno.h>
#include <stdarg.h>
#include <netdb.h>
#include "common.h"

#define VERIF_MAXFD 12
int verif_fd_open[VERIF_MAXFD];     /* 1 = open */
int verif_fd_next = 3;
int verif_close_calls;

static int
fd_new(void)
{
    int fd = verif_fd_next;

    if (fd >= VERIF_MAXFD) {
        errno = EMFILE;
        return -1;
    }
    verif_fd_next++;
    verif_fd_open[fd] = 1;
    return fd;
}

int
verif_open_fds(void)
{
    int i, n = 0;

    for (i = 0; i < VERIF_MAXFD; i++) {
        n += verif_fd_open[i];
    }
    return n;
}

int
socket(int domain, int type, int protocol)
{
    (void) domain; (void) type; (void) protocol;
    if (V_BOOL()) {
        errno = EMFILE;
        return -1;
    }
    return fd_new();
}

int
bind(int fd, const struct sockaddr *addr, socklen_t len)
{
    (void) fd; (void) addr; (void) len;
    if (V_BOOL()) {
        errno = EADDRINUSE;
        return -1;
    }
    return 0;
}

int
listen(int fd, int backlog)
{
    (void) fd; (void) backlog;
    if (V_BOOL()) {
        errno = EADDRINUSE;
        return -1;
    }
    return 0;
}

int
connect(int fd, const struct sockaddr *addr, socklen_t len)
{
    (void) fd; (void) addr; (void) len;
    if (V_BOOL()) {
        errno = ECONNREFUSED;
        return -1;
    }
    return 0;
}

char verif_peer_path[8];
int verif_peer_len = -1;

int
accept(int fd, struct sockaddr *addr, socklen_t *len)
{
    (void) fd;
    if (V_BOOL()) {
        errno = ECONNABORTED;
        return -1;
    }
    /* as the kernel does for a UNIX-domain peer: the family, then the k bytes of the peer's path (none for an
     * unnamed peer) WITHOUT a terminator, *len = what was written; nothing else in the caller's block is touched */
    if (addr && len && *len >= sizeof(sa_family_t)) {
        int k = (int) V_RANGE(0, 3), i;

        addr->sa_family = AF_UNIX;
        if ((size_t) k > *len - sizeof(sa_family_t)) {
            k = (int) (*len - sizeof(sa_family_t));
        }
        for (i = 0; i < k; i++) {
            verif_peer_path[i] = (char) V_RANGE('a', 'z');
            addr->sa_data[i] = verif_peer_path[i];
        }
        verif_peer_path[k] = 0;
        verif_peer_len = k;
        *len = (socklen_t) (sizeof(sa_family_t) + (size_t) k);
    }
    return fd_new();
}

int
dup(int fd)
{
    (void) fd;
    if (V_BOOL()) {
        errno = EMFILE;
        return -1;
    }
    return fd_new();
}

/* close: 0; or -1/EINTR with the descriptor still open; or -1/EIO with the descriptor released */
int
close(int fd)
{
    int k = (int) V_RANGE(0, 2);

    verif_close_calls++;
    CHECK("close() is only called on a descriptor that is open", fd >= 0 && fd < VERIF_MAXFD && verif_fd_open[fd]);
    if (k == 1 && verif_close_calls <= 2) {
        errno = EINTR;
        return -1;
    }
    if (fd >= 0 && fd < VERIF_MAXFD) {
        verif_fd_open[fd] = 0;
    }
    if (k == 2) {
        errno = EIO;
        return -1;
    }
    return 0;
}

int
fcntl(int fd, int cmd, ...)
{
    (void) fd; (void) cmd;
    return V_BOOL() ? -1 : 0;
}

int
select(int n, fd_set *r, fd_set *w, fd_set *e, struct timeval *tv)
{
    (void) n; (void) r; (void) w; (void) e; (void) tv;
    return 0;
}

struct hostent *
gethostbyname(const char *name)
{
    (void) name;
    return (struct hostent *) 0;
}

struct hostent *
gethostbyaddr(const void *addr, socklen_t len, int type)
{
    (void) addr; (void) len; (void) type;
    return (struct hostent *) 0;
}
